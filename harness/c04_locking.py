"""C04: one writer at a time, no lost update (E1).

H1: a competing writer attempt (timeout=0) is injected at a symbolic storage-operation boundary of
    writer A's script; it must fail with LockError exactly while A holds the lock and succeed otherwise;
    when it succeeds it commits a document, which must survive A's later commits (no lost update);
    every successful commit advances the generation by exactly one.
H2: filelock.try_for against a symbolic clock and symbolic acquire() outcomes (fully traced).
H3: AsyncWriter created while a competitor holds the lock (buffers, then commits in its thread);
    BufferedWriter keeps the lock for its lifetime.
"""
import random
import time
from typing import List, Optional

from vk.prelude import h, tick, tiered, concrete_arrays, notrace, sym_true
from vk.fixtures import Ctl, restore, cleanup, dump, base_schema
from whoosh import writing, index as windex
from whoosh.filedb.filestore import RamStorage
from whoosh.util import filelock

concrete_arrays()


def _build_pre():
    random.seed(0)
    st = RamStorage()
    ix = st.create_index(base_schema())
    w = ix.writer()
    w.add_document(k=u"a", t=u"alfa bravo", n=1)
    w.add_document(k=u"b", t=u"bravo charlie", n=2)
    w.commit()
    return dict((k, bytes(v)) for k, v in st.files.items()), ix.latest_generation()


PRE, PRE_GEN = _build_pre()


class Boom(Exception):
    pass


def a_script(ix, outcome, compound):
    """Two transactions of writer A; the first ends per `outcome`, the second always commits."""
    commits = 0
    docs = []
    if outcome == "commit":
        w = ix.writer(compound=compound)
        w.add_document(k=u"c", t=u"charlie", n=3)
        w.delete_by_term("k", u"a")
        w.commit()
        commits += 1
        docs += [("add", u"c"), ("del", u"a")]
    elif outcome == "cancel":
        w = ix.writer(compound=compound)
        w.add_document(k=u"c", t=u"charlie", n=3)
        w.delete_by_term("k", u"a")
        w.cancel()
    else:
        try:
            with ix.writer(compound=compound) as w:
                w.add_document(k=u"c", t=u"charlie", n=3)
                w.delete_by_term("k", u"a")
                raise Boom()
        except Boom:
            pass
    w = ix.writer(compound=compound)
    w.add_document(k=u"d", t=u"delta", n=4)
    w.commit(merge=False)
    commits += 1
    docs.append(("add", u"d"))
    return commits, docs


_CACHE = {}


def _warm(kind, outcome, compound):
    key = (kind, outcome, compound)
    if key not in _CACHE:
        random.seed(1)
        tmp = []
        try:
            ctl = Ctl()
            ctl.enabled = False
            st = restore(kind, PRE, ctl, tmp)
            ix = st.open_index()
            ctl.enabled = True
            a_script(ix, outcome, compound)
            ctl.enabled = False
            # A holds the lock from its 'lock' tick (acquire follows immediately, before the next storage
            # operation) until the end of that transaction, i.e. until the next 'lock' tick or the end.
            locks = [i + 1 for i, (kd, nm) in enumerate(ctl.trace) if kd == "lock"]
            _CACHE[key] = (ctl.n, locks, list(ctl.trace))
            st.release_all()
        finally:
            cleanup(tmp)
    return _CACHE[key]


def run_second_writer(kind, outcome, compound, k):
    ntx, locks, trace = _warm(kind, outcome, compound)
    random.seed(1)
    tmp = []
    box = {"res": None, "at": None}
    try:
        ctl = Ctl()
        ctl.enabled = False
        st = restore(kind, PRE, ctl, tmp)
        ix = st.open_index()

        def attempt():
            box["at"] = ctl.n
            try:
                w2 = ix.writer(timeout=0)
            except windex.LockError:
                box["res"] = "locked"
                return
            except Exception as e:  # noqa
                box["res"] = "error %s: %s" % (type(e).__name__, e)
                return
            try:
                box["gen_b"] = w2.generation
                w2.add_document(k=u"zb", t=u"zulu", n=9)
                w2.commit(merge=False)
                box["res"] = "committed"
            except Exception as e:  # noqa
                box["res"] = "error in B %s: %s" % (type(e).__name__, e)

        ctl.add_point(k, attempt)
        ctl.enabled = True
        try:
            commits, ops = a_script(ix, outcome, compound)
        except windex.LockError:
            return "writer A itself got LockError (B leaked the lock?) after B=%s at op %s" % (box["res"], box["at"])
        ctl.enabled = False
        at = box["at"]
        if at is None:
            # k beyond the script: attempt now, after everything ended
            attempt()
            at = ntx + 1
        # expected: A holds the lock iff some lock tick L satisfies L < at and at <= end of that txn
        ends = locks[1:] + [ntx + 1]
        holding = any(L < at and at <= (E - 1 if E <= ntx else ntx) for L, E in zip(locks, ends))
        # between the last storage op of txn i and the lock tick of txn i+1 nothing ticks, so 'at' equal to
        # the next lock tick means: injected before A creates its next lock -> A does not hold it
        if holding and box["res"] != "locked":
            return "second writer at op %s got %r while A held the lock" % (at, box["res"])
        if not holding and box["res"] != "committed":
            return "second writer at op %s got %r although no writer held the lock" % (at, box["res"])
        bcommits = 1 if box["res"] == "committed" else 0
        gen = ix.latest_generation()
        if gen != PRE_GEN + commits + bcommits:
            return "generation %s after %d+%d commits on top of %s" % (gen, commits, bcommits, PRE_GEN)
        if bcommits and box["gen_b"] is None:
            return "B had no generation"
        d = dump(ix)
        keys = set(x[0][1] for x in d[1])   # first stored field is k -> ('k', repr)
        want = set([u"a", u"b"])
        for op, key in ops:
            if op == "add":
                want.add(key)
            else:
                want.discard(key)
        if bcommits:
            want.add(u"zb")
        if keys != set(repr(x) for x in want):
            return "documents %s, expected %s (B=%s at op %s): a committed update was lost" % (sorted(keys), sorted(want), box["res"], at)
        # the lock is free at the end
        w3 = ix.writer(timeout=0)
        w3.cancel()
        st.release_all()
        tick(box["res"] is not None)
        return None
    finally:
        cleanup(tmp)


def _mk(kind, outcome, compound):
    name = "c04_second_%s_%s_%s" % (kind, outcome, "cmp" if compound else "loose")

    @h(bounds="writer A: txn1 (add+delete, ends with %s) then txn2 (add, commit) on %s storage, compound=%s; a second writer "
              "(timeout=0; commits a document when it gets the lock) is attempted before storage operation k, every k of the script and after it"
              % (outcome, kind, compound),
       funcs=["whoosh.writing.SegmentWriter.__init__", "whoosh.writing.SegmentWriter._finish", "whoosh.writing.IndexWriter.__exit__",
              "whoosh.util.filelock.try_for", "whoosh.util.filelock.FcntlLock" if kind == "file" else "whoosh.filedb.filestore.RamStorage.lock",
              "whoosh.index.FileIndex.lock", "whoosh.index.TOC.write"],
       examples=[dict(k=1), dict(k=9), dict(k=10000)],
       outside="mutual exclusion between OS processes (flock itself), fairness, blocking acquisition",
       stubs=["the competing writer's whole attempt runs atomically at a storage-operation boundary of A"],
       timeout=dict(quick=300, thorough=600))
    def harness(k: int) -> Optional[str]:
        """
        pre: 1 <= k <= 10000
        post: _ is None
        """
        with notrace():
            return run_second_writer(kind, outcome, compound, k)
    harness.__name__ = harness.__qualname__ = name
    return name, harness


for _kind in ("ram", "file"):
    for _o in ("commit", "cancel", "exception"):
        for _c in (True, False):
            _n, _f = _mk(_kind, _o, _c)
            globals()[_n] = _f


# ------------------------------------------------------------------ H2: try_for with a symbolic clock
@h(bounds="<=4 acquire() outcomes (symbolic bools), clock readings symbolic non-decreasing ints (ms), timeout in [0, 50], delay 10",
   funcs=["whoosh.util.filelock.try_for"],
   examples=[dict(outs=[False, True], clock=[0, 1, 2, 3, 4, 5], timeout=5), dict(outs=[False], clock=[0, 9], timeout=0)],
   stubs=["time.time -> next element of a symbolic non-decreasing list; time.sleep -> no-op; fn -> next symbolic bool (False when exhausted)"],
   timeout=dict(quick=200, thorough=600))
def c04_try_for(outs: List[bool], clock: List[int], timeout: int) -> Optional[str]:
    """
    pre: len(outs) <= 4 and 2 <= len(clock) <= 6 and 0 <= timeout <= 50
    pre: all(0 <= clock[i] <= clock[i + 1] <= 100 for i in range(len(clock) - 1))
    post: _ is None
    """
    calls = []
    reads = []

    def fn():
        i = len(calls)
        v = outs[i] if i < len(outs) else False
        calls.append(v)
        return v

    def fake_time():
        i = len(reads)
        t = clock[i] if i < len(clock) else clock[-1] + 1000
        reads.append(t)
        return t

    real_time, real_sleep = filelock.time.time, filelock.time.sleep
    filelock.time.time, filelock.time.sleep = fake_time, (lambda d: None)
    try:
        r = filelock.try_for(fn, timeout=timeout, delay=10)
    finally:
        filelock.time.time, filelock.time.sleep = real_time, real_sleep
    tick(len(calls) > 1)
    if bool(r) != any(calls):
        return "try_for returned %r but acquire() outcomes were %r" % (r, calls)
    if r and not calls[-1]:
        return "kept calling after success: %r" % (calls,)
    if any(calls[:-1]):
        return "called acquire() again after it had succeeded: %r" % (calls,)
    if len(calls) < 1:
        return "never tried"
    if timeout == 0 and len(calls) != 1:
        return "timeout=0 made %d attempts" % len(calls)
    # every retry was preceded by a clock reading strictly below start+timeout
    start = reads[0]
    for j in range(1, len(calls)):
        if not reads[j] < start + timeout:
            return "retry %d although the clock read %r >= %r" % (j, reads[j], start + timeout)
    return None


# ------------------------------------------------------------------ H3: front-ends
def run_async(kind, k):
    """AsyncWriter created before op k of a competing writer's transaction."""
    ntx, locks, trace = _warm(kind, "commit", True)
    random.seed(1)
    tmp = []
    box = {"aw": None, "buffered": None, "err": None}
    try:
        ctl = Ctl()
        ctl.enabled = False
        st = restore(kind, PRE, ctl, tmp)
        ix = st.open_index()

        def make_async():
            try:
                aw = writing.AsyncWriter(ix, delay=0.01)
                box["aw"] = aw
                box["buffered"] = aw.running is False and aw.writer is None
                aw.add_document(k=u"za", t=u"zulu async", n=8)
                if aw.writer is not None:
                    aw.commit()          # got the lock at once: plain commit inside this step
                    box["committed_now"] = True
            except Exception as e:  # noqa
                box["err"] = "%s: %s" % (type(e).__name__, e)
        ctl.add_point(k, make_async)
        ctl.enabled = True
        try:
            commits, ops = a_script(ix, "commit", True)
        except windex.LockError:
            return "competitor got LockError"
        ctl.enabled = False
        if box["aw"] is None:
            make_async()
        if box["err"]:
            return "AsyncWriter failed: " + box["err"]
        aw = box["aw"]
        if not box.get("committed_now"):
            aw.commit()                  # buffered: starts the retry thread
            aw.join(20)
            if aw.is_alive():
                return "AsyncWriter thread did not finish"
        d = dump(ix)
        keys = set(x[0][1] for x in d[1])
        want = set(repr(x) for x in [u"b", u"c", u"d", u"za"])
        if keys != want:
            return "documents %s, expected %s" % (sorted(keys), sorted(want))
        if ix.latest_generation() != PRE_GEN + commits + 1:
            return "generation %s, expected %s" % (ix.latest_generation(), PRE_GEN + commits + 1)
        st.release_all()
        tick(bool(box["buffered"]))
        return None
    finally:
        cleanup(tmp)


def _mk_async(kind):
    name = "c04_async_%s" % kind

    @h(bounds="AsyncWriter constructed before storage operation k of a competing writer's two transactions on %s storage (buffers while the lock "
              "is held, otherwise writes through); thread joined; every k" % kind,
       funcs=["whoosh.writing.AsyncWriter.__init__", "whoosh.writing.AsyncWriter.run", "whoosh.writing.AsyncWriter.commit"],
       examples=[dict(k=1), dict(k=12)], outside="timing of the retry thread relative to further competitors",
       timeout=dict(quick=300, thorough=600))
    def harness(k: int) -> Optional[str]:
        """
        pre: 1 <= k <= 10000
        post: _ is None
        """
        with notrace():
            return run_async(kind, k)
    harness.__name__ = harness.__qualname__ = name
    return name, harness


for _kind in ("ram", "file"):
    _n, _f = _mk_async(_kind)
    globals()[_n] = _f


def run_buffered(kind, k):
    """While a BufferedWriter's sub-writer exists, a plain writer attempted before any of its storage
    operations fails with LockError; after close() it succeeds and sees every document."""
    random.seed(1)
    tmp = []
    box = {"res": None}
    try:
        ctl = Ctl()
        ctl.enabled = False
        st = restore(kind, PRE, ctl, tmp)
        ix = st.open_index()

        def attempt():
            box["at"] = ctl.n
            try:
                w2 = ix.writer(timeout=0)
                w2.cancel()
                box["res"] = "acquired"
            except windex.LockError:
                box["res"] = "locked"
        ctl.enabled = True
        bw = writing.BufferedWriter(ix, period=None, limit=2)
        lock_tick = ctl.n
        ctl.add_point(k, attempt)
        for i, key in enumerate([u"p", u"q", u"r"]):
            bw.add_document(k=key, t=u"papa", n=10 + i)
        bw.close()
        ctl.enabled = False
        # Between the commit of its current sub-writer and the creation of the next one (restart) a
        # BufferedWriter does not hold the lock: the only such instants are the 'lock' ticks themselves.
        if box["res"] == "acquired" and ctl.trace[box["at"] - 1][0] != "lock":
            return "a plain writer acquired the lock at op %s (%s) while a BufferedWriter's sub-writer held it" % (box["at"], ctl.trace[box["at"] - 1])
        if box["res"] == "locked" and ctl.trace[box["at"] - 1][0] == "lock":
            return "lock held at op %s although no sub-writer exists" % box["at"]
        attempt()
        if box["res"] != "acquired":
            return "lock not released by BufferedWriter.close()"
        d = dump(ix)
        keys = set(x[0][1] for x in d[1])
        want = set(repr(x) for x in [u"a", u"b", u"p", u"q", u"r"])
        if keys != want:
            return "documents %s, expected %s" % (sorted(keys), sorted(want))
        st.release_all()
        tick(box["res"] is not None)
        return None
    finally:
        cleanup(tmp)


def _mk_buffered(kind):
    name = "c04_buffered_%s" % kind

    @h(bounds="BufferedWriter(limit=2) adding 3 documents then close() on %s storage; plain writer attempted before storage operation k, every k "
              "after the BufferedWriter's construction" % kind,
       funcs=["whoosh.writing.BufferedWriter.__init__", "whoosh.writing.BufferedWriter.commit", "whoosh.writing.BufferedWriter.close"],
       examples=[dict(k=3), dict(k=10000)], timeout=dict(quick=300, thorough=600))
    def harness(k: int) -> Optional[str]:
        """
        pre: 3 <= k <= 10000
        post: _ is None
        """
        with notrace():
            return run_buffered(kind, k)
    harness.__name__ = harness.__qualname__ = name
    return name, harness


for _kind in ("ram", "file"):
    _n, _f = _mk_buffered(_kind)
    globals()[_n] = _f


# ------------------------------------------------------------------ H4: the lock across fork()
def run_fork(how, n_docs, child_exits_first):
    """A process holding the write lock forks (the child inherits the lock's file descriptor and stays alive);
    when the writer finishes (commit/cancel), the lock must be free: a new writer in the parent, and in a
    *third* process, can be opened, and while the writer is open no other process can take the lock."""
    import os
    import shutil
    import tempfile
    from whoosh.filedb.filestore import FileStorage
    from whoosh.index import LockError
    random.seed(3)
    d = tempfile.mkdtemp(prefix="vkc04-")
    try:
        st = FileStorage(d)
        ix = st.create_index(base_schema())
        w = ix.writer()
        for i in range(n_docs):
            w.add_document(k=u"k%d" % i, t=u"alfa", n=i)
        r1, w1 = os.pipe()
        r2, w2 = os.pipe()
        pid = os.fork()
        if pid == 0:
            # child: tries to take the lock while the parent's writer holds it, reports, then lingers holding the inherited descriptor
            try:
                os.close(r2)
                try:
                    st.open_index().writer(timeout=0.0).cancel()
                    os.write(w2, b"T")          # took the lock although the parent holds it
                except LockError:
                    os.write(w2, b"L")
                except BaseException:
                    os.write(w2, b"E")
                os.close(w1)
                os.read(r1, 1)                  # wait until the parent is done
            finally:
                os._exit(0)
        os.close(w2)
        got = os.read(r2, 1)
        os.close(r2)
        err = None
        if got != b"L":
            err = "a second process %s while the first process' writer held the lock" % ("took the write lock" if got == b"T" else "failed unexpectedly (%r)" % got)
        if child_exits_first:
            os.close(w1)
            os.close(r1)
            os.waitpid(pid, 0)
        if how == 0:
            w.commit()
        else:
            w.cancel()
        try:
            w2_ = ix.writer(timeout=0.0)
            w2_.add_document(k=u"later", t=u"bravo", n=99)
            w2_.commit()
        except LockError:
            err = err or "after %s the write lock is still held (a forked child that inherited the descriptor is %s)" % (
                "commit()" if how == 0 else "cancel()", "gone" if child_exits_first else "alive")
        if not child_exits_first:
            os.close(w1)
            os.close(r1)
            os.waitpid(pid, 0)
        if err is None:
            want = (n_docs if how == 0 else 0) + 1
            if ix.refresh().doc_count() != want:
                err = "after the fork scenario the index holds %d documents, expected %d" % (ix.refresh().doc_count(), want)
        return err
    finally:
        shutil.rmtree(d, ignore_errors=True)


@h(bounds="a FileStorage writer with 0..2 buffered documents forks; the child tries the lock (must fail), then either exits or stays alive holding the inherited "
          "descriptor while the parent commits or cancels and opens the next writer (symbolic: commit/cancel, document count, child lifetime)",
   funcs=["whoosh.util.filelock.FcntlLock.acquire", "whoosh.util.filelock.FcntlLock.release", "whoosh.index.FileIndex.writer", "whoosh.writing.SegmentWriter.commit"],
   examples=[dict(how=0, n=1, first=False)], timeout=dict(quick=300, thorough=600),
   stubs=["fork/flock are real OS calls executed outside tracing: one OS schedule per configuration"],
   outside="more than two processes, lock files on network file systems, Windows (MsvcrtLock)")
def c04_fork(how: int, n: int, first: bool) -> Optional[str]:
    """
    pre: 0 <= how <= 1 and 0 <= n <= 2
    post: _ is None
    """
    with notrace():
        hw = 0 if sym_true(lambda: how == 0) else 1
        nn = 0 if sym_true(lambda: n == 0) else (1 if sym_true(lambda: n == 1) else 2)
        r = run_fork(hw, nn, sym_true(lambda: first))
    tick(True)
    return r
