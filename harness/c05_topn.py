"""C05-H2: search(q, limit=k) is the k-prefix of the exhaustive ranking (documents, scores, order), on
real indexes whose posting lists span several blocks (blocklimit=2), 5 layouts, 3 weighting models,
with and without filter / mask / terms recording / collapse.  Symbolic query codes, native pipeline."""
from typing import Optional

from vk.prelude import THOROUGH, h, tick, tiered, concrete_arrays, notrace, sym_true
from vk import corpus as C
from whoosh import scoring, query, sorting

concrete_arrays()

LEAVES = C.leaves()
NL = len(LEAVES)
NSEL = 12 if not THOROUGH else len(C.leaves())
SCORED_OPS = [0, 1, 2, 3, 4, 5, 6, 7]      # indexes into C.OPS (all but the constant-score / Or(Not..) forms)
_S = {}


def weightings():
    ws = [("BM25F", scoring.BM25F()), ("TF_IDF", scoring.TF_IDF()), ("Frequency", scoring.Frequency())]
    if THOROUGH:
        ws.append(("BM25F(B=0.3,K1=2)", scoring.BM25F(B=0.3, K1=2.0)))
    return ws


C05_LAYOUTS = C.LAYOUTS if THOROUGH else ["one", "del", "three"]
# quick: 12 of the leaves (terms, keyword, prefix, term range, fuzzy, numeric ranges, Every, phrase)
LSEL = list(range(len(C.leaves()))) if THOROUGH else [0, 1, 2, 5, 6, 9, 11, 12, 14, 16, 17, 18]


def searchers():
    if not _S:
        for name in C05_LAYOUTS:
            ix = C.build_layout(name)
            for wn, w in weightings():
                _S[(name, wn)] = ix.searcher(weighting=w)
    return _S


def pick(x, n):
    for v in range(n - 1):
        if sym_true(lambda: x == v):
            return v
    return n - 1


def ranking(r):
    return [(h["k"], h.score) for h in r]


_R = {}


class FinalBM25F(scoring.BM25F):
    """final() hook that rescales by a stored field of the hit (raises scores: the top-N threshold is then not a bound on raw scores)"""
    use_final = True

    def final(self, searcher, docnum, score):
        return score * (1.0 + (searcher.stored_fields(docnum).get("n") or 0) / 1000.0)


def _fn_weight(searcher, fieldname, text, matcher):
    return matcher.weight() * 1.5 + 0.25


def reverse_searchers():
    """ReverseWeighting (scores negated: the exhaustive ranking is worst-first) on the multi-segment layouts"""
    if not _R:
        for name in ("del", "three"):
            ix = C.build_layout(name)
            for wn, w in (("Reverse(BM25F)", scoring.ReverseWeighting(scoring.BM25F())), ("Reverse(TF_IDF)", scoring.ReverseWeighting(scoring.TF_IDF())),
                          ("Final(BM25F)", FinalBM25F()), ("Function", scoring.FunctionWeighting(_fn_weight))):
                _R[(name, wn)] = ix.searcher(weighting=w)
    return _R


def check_topn(q, desc, ks=(1, 2, 3), fast=False, S=None):
    engaged = False
    for (lname, wn), s in (S or searchers()).items():
        if fast and lname == "one":
            continue         # the nested harnesses use the two multi-segment layouts with deletions
        variants = [("plain", {}),
                    ("filter g:x|y", dict(filter=query.Or([query.Term("g", u"x"), query.Term("g", u"y")]))),
                    ("mask t:charlie", dict(mask=query.Term("t", u"charlie"))),
                    ("terms", dict(terms=True))]
        if fast:
            variants = [variants[0], variants[3]]
        for vname, kw in variants:
            try:
                full = s.search(q, limit=None, **kw)
                fr = ranking(full)
            except Exception as e:  # noqa
                return "%s [%s/%s/%s] limit=None raised %s: %s" % (desc, lname, wn, vname, type(e).__name__, e)
            # exhaustive ranking is ordered by descending score, ascending document order on ties
            docorder = [d[0] for d in C.CORPUS]
            want_order = sorted(fr, key=lambda x: (-x[1], docorder.index(x[0])))
            if fr != want_order:
                return "%s [%s/%s/%s] exhaustive ranking not in (score desc, doc asc) order: %r" % (desc, lname, wn, vname, fr)
            for k in ks:
                try:
                    col = s.collector(limit=k, **kw)
                    s.search_with_collector(q, col)
                    r = col.results()
                    got = ranking(r)
                except Exception as e:  # noqa
                    return "%s [%s/%s/%s] limit=%d raised %s: %s" % (desc, lname, wn, vname, k, type(e).__name__, e)
                if got != fr[:k]:
                    return "%s [%s/%s/%s] limit=%d gives %r, exhaustive prefix is %r" % (desc, lname, wn, vname, k, got, fr[:k])
                if len(r) != len(fr):
                    return "%s [%s/%s/%s] limit=%d: len(results)=%d, exhaustive %d" % (desc, lname, wn, vname, k, len(r), len(fr))
                top = col
                while hasattr(top, "child"):
                    top = top.child
                if getattr(top, "pruned", False) or getattr(top, "skipped_times", 0):
                    engaged = True
    return None, engaged


def run_pair(op, a, b):
    la, lb = LEAVES[a], LEAVES[b]
    o = C.OPS[op]
    q = o[1](la[1](), lb[1]())
    r = check_topn(q, "%s(%s, %s)" % (o[0], la[0], lb[0]))
    return r if isinstance(r, tuple) else (r, False)


def run_boosted(op, a, b, boost_code, allow_known=True):
    """boosted clauses: first operand boosted by 0.5 / 2 / 3.
    Known finding KF-C05-1: a boost > 1 on a clause whose matcher is a WrappingMatcher (multi-term
    expansions, phrases, compounds) is passed *unscaled* to the child's replace() (pinned by
    tests/test_quality.py::test_replacements), which can prune top-N hits; such inputs are excluded
    here and witnessed by c05_kf_wrapping_boost."""
    la, lb = LEAVES[a], LEAVES[b]
    o = C.OPS[op]
    boost = [0.5, 2.0, 3.0][boost_code]
    if allow_known and boost > 1 and a not in (0, 1, 2, 3, 4, 5):
        return None, False
    qa = la[1]()
    try:
        qa = qa.with_boost(boost)
    except Exception:  # noqa
        pass
    q = o[1](qa, lb[1]())
    r = check_topn(q, "%s(%s^%s, %s)" % (o[0], la[0], boost, lb[0]), ks=(1, 2))
    return r if isinstance(r, tuple) else (r, False)


FUNCS = ["whoosh.collectors.TopCollector", "whoosh.collectors.ScoredCollector.matches", "whoosh.collectors.FilterCollector",
         "whoosh.collectors.TermsCollector", "whoosh.matching.binary.*.replace", "whoosh.matching.binary.*.skip_to_quality",
         "whoosh.matching.wrappers.*.replace", "whoosh.codec.whoosh3.W3LeafMatcher.skip_to_quality", "whoosh.scoring.BM25F",
         "whoosh.scoring.TF_IDF", "whoosh.scoring.Frequency", "whoosh.searching.Searcher.search_with_collector"]
OUT = "corpora other than the fixed 8-document corpus (posting blocks of 2), k > 3, PL2/DFree/custom weightings, final() hooks"


def _mk(op):
    name = "c05_top_" + "".join(ch if ch.isalnum() else "_" for ch in C.OPS[op][0]).strip("_").lower()

    @h(bounds="%s(a, b) over all ordered pairs of %d leaves (quick 12 of the leaf table, thorough all); k in 1..3; layouts %s; "
              "BM25F, TF_IDF, Frequency (thorough: + BM25F(B=.3,K1=2)); plain / filter / mask / terms=True" % (C.OPS[op][0], NSEL, C05_LAYOUTS),
       funcs=FUNCS, examples=[dict(a=0, b=1), dict(a=7, b=4)], outside=OUT, timeout=dict(quick=900, thorough=1800))
    def harness(a: int, b: int) -> Optional[str]:
        """
        pre: 0 <= a < NSEL and 0 <= b < NSEL
        post: _ is None
        """
        with notrace():
            r, engaged = run_pair(op, LSEL[pick(a, NSEL)], LSEL[pick(b, NSEL)])
        tick(engaged)
        return r
    harness.__name__ = harness.__qualname__ = name
    return name, harness


for _op in SCORED_OPS:
    _n, _f = _mk(_op)
    globals()[_n] = _f

BL = [0, 1, 3, 6, 12, 16]   # leaves used with boosts


@h(bounds="op(a^boost, b): op over 8 operators, a, b over 6 leaves, boost in {0.5, 2, 3}; k in 1..2; all layouts/weightings/variants",
   funcs=FUNCS + ["whoosh.matching.wrappers.WrappingMatcher"], examples=[dict(op=1, a=0, b=1, bc=0)], outside=OUT,
   timeout=dict(quick=900, thorough=1800))
def c05_boosted(op: int, a: int, b: int, bc: int) -> Optional[str]:
    """
    pre: 0 <= op < 8 and 0 <= a < 6 and 0 <= b < 6 and 0 <= bc < 3
    post: _ is None
    """
    with notrace():
        r, engaged = run_boosted(SCORED_OPS[pick(op, 8)], BL[pick(a, 6)], BL[pick(b, 6)], pick(bc, 3))
    tick(engaged)
    return r


@h(bounds="op(a, b) under ReverseWeighting(BM25F), ReverseWeighting(TF_IDF) (negative scores), a BM25F subclass with a final() hook that rescales by a stored field, "
          "and FunctionWeighting: 9 operators (incl. Or(Not a, b)), a, b over 7 leaves (incl. Every(field)); k in 1..3; layouts del/three; "
          "plain and terms=True; these scorers have no usable upper bound, so only the result is asserted",
   funcs=FUNCS + ["whoosh.scoring.ReverseWeighting"], examples=[dict(op=1, a=0, b=1)], outside=OUT, timeout=dict(quick=900, thorough=1800))
def c05_reverse(op: int, a: int, b: int) -> Optional[str]:
    """
    pre: 0 <= op < 9 and 0 <= a < 7 and 0 <= b < 7
    post: _ is None
    """
    with notrace():
        o = C.OPS[(SCORED_OPS + [8])[pick(op, 9)]]
        la, lb = LEAVES[(BL + [17])[pick(a, 7)]], LEAVES[(BL + [17])[pick(b, 7)]]
        r = check_topn(o[1](la[1](), lb[1]()), "%s(%s, %s)" % (o[0], la[0], lb[0]), fast=True, S=reverse_searchers())
        r = r[0] if isinstance(r, tuple) else r
    tick(True)
    return r


@h(bounds="witness of known finding KF-C05-1 (concrete): Or(Prefix('t','al')^3, Term('t','alfa')), limit=2", funcs=FUNCS, examples=[],
   timeout=dict(quick=120, thorough=120))
def c05_kf_wrapping_boost(k: int) -> Optional[str]:
    """
    pre: k == 0
    post: _ is None
    """
    with notrace():
        r, _ = run_boosted(1, 6, 0, 2, allow_known=False)
    tick(True)
    return None if r is None else "KF-C05-1 witness: " + r


# ------------------------------------------------------------------ depth 2 and three-clause disjunctions
NB = [0, 1, 2, 3, 5, 12]     # leaves: 4 terms, keyword, numeric range


def run_nested(op1, shape, a, b, c, d, boost_code):
    """op1(X, leaf d) / op1(leaf d, X) where X = Or3(a, b, c^boost) (shape 0/1: default or array matcher),
    And(a, Or(b, c^boost)) (shape 2) or Or(a, And(b, c^boost)) (shape 3); shape//4 selects which side X is on."""
    L = [LEAVES[NB[i]] for i in (a, b, c, d)]
    boost = [1.0, 0.5][boost_code]
    qc = L[2][1]()
    if boost != 1.0:
        qc = qc.with_boost(boost)
    sh = shape % 4
    if sh in (0, 1):
        X = query.Or([L[0][1](), L[1][1](), qc])
        if sh == 1:
            X.matcher_type = query.Or.ARRAY_MATCHER
        xd = "Or%s(%s, %s, %s^%s)" % ("/array" if sh == 1 else "", L[0][0], L[1][0], L[2][0], boost)
    elif sh == 2:
        X = query.And([L[0][1](), query.Or([L[1][1](), qc])])
        xd = "And(%s, Or(%s, %s^%s))" % (L[0][0], L[1][0], L[2][0], boost)
    else:
        X = query.Or([L[0][1](), query.And([L[1][1](), qc])])
        xd = "Or(%s, And(%s, %s^%s))" % (L[0][0], L[1][0], L[2][0], boost)
    o = C.OPS[op1]
    if shape >= 4:
        q = o[1](L[3][1](), X)
        desc = "%s(%s, %s)" % (o[0], L[3][0], xd)
    else:
        q = o[1](X, L[3][1]())
        desc = "%s(%s, %s)" % (o[0], xd, L[3][0])
    r = check_topn(q, desc, ks=(1, 2), fast=True)
    return r if isinstance(r, tuple) else (r, False)


def _mk_nested(op1):
    name = "c05_nest_" + "".join(ch if ch.isalnum() else "_" for ch in C.OPS[op1][0]).strip("_").lower()

    @h(bounds="%s(X, d) and %s(d, X) with X in {Or(a,b,c^w) default and array matcher, And(a,Or(b,c^w)), Or(a,And(b,c^w))}, a,b,c,d over 4 leaves "
              "(quick: 3), w in {1, 0.5}; k in 1..2; layouts/weightings/variants as above (nested: the multi-segment layouts, plain and terms=True only)" % (C.OPS[op1][0], C.OPS[op1][0]),
       funcs=FUNCS + ["whoosh.matching.combo.ArrayUnionMatcher", "whoosh.matching.wrappers.FilterMatcher"],
       examples=[dict(shape=0, a=0, b=1, c=2, d=3, bc=1), dict(shape=5, a=3, b=2, c=1, d=0, bc=0)], outside=OUT,
       timeout=dict(quick=900, thorough=3000))
    def harness(shape: int, a: int, b: int, c: int, d: int, bc: int) -> Optional[str]:
        """
        pre: 0 <= shape < 8 and 0 <= a < NNB and 0 <= b < NNB and 0 <= c < NNB and 0 <= d < NNB and 0 <= bc < 2
        post: _ is None
        """
        with notrace():
            r, engaged = run_nested(op1, pick(shape, 8), pick(a, NNB), pick(b, NNB), pick(c, NNB), pick(d, NNB), pick(bc, 2))
        tick(engaged)
        return r
    harness.__name__ = harness.__qualname__ = name
    return name, harness


NNB = 3
for _op in (0, 1, 3, 4, 5, 6):
    _n, _f = _mk_nested(_op)
    globals()[_n] = _f
