"""C05-H2: search(q, limit=k) is the k-prefix of the exhaustive ranking (documents, scores, order), on
real indexes whose posting lists span several blocks (blocklimit=2), 5 layouts, 3 weighting models,
with and without filter / mask / terms recording / collapse.  Symbolic query codes, native pipeline."""
from typing import Optional

from vk.prelude import THOROUGH, h, tick, tiered, concrete_arrays, notrace, sym_true
from vk import corpus as C
from whoosh import scoring, query, sorting

concrete_arrays()

LEAVES = C.leaves()
NL = len(LEAVES)
NSEL = 12 if not THOROUGH else len(C.leaves())
SCORED_OPS = [0, 1, 2, 3, 4, 5, 6, 7]      # indexes into C.OPS (all but the constant-score / Or(Not..) forms)
_S = {}


def weightings():
    ws = [("BM25F", scoring.BM25F()), ("TF_IDF", scoring.TF_IDF()), ("Frequency", scoring.Frequency())]
    if THOROUGH:
        ws.append(("BM25F(B=0.3,K1=2)", scoring.BM25F(B=0.3, K1=2.0)))
    return ws


C05_LAYOUTS = C.LAYOUTS if THOROUGH else ["one", "del", "three"]
# quick: 12 of the leaves (terms, keyword, prefix, term range, fuzzy, numeric ranges, Every, phrase)
LSEL = list(range(len(C.leaves()))) if THOROUGH else [0, 1, 2, 5, 6, 9, 11, 12, 14, 16, 17, 18]


def searchers():
    if not _S:
        for name in C05_LAYOUTS:
            ix = C.build_layout(name)
            for wn, w in weightings():
                _S[(name, wn)] = ix.searcher(weighting=w)
    return _S


def pick(x, n):
    for v in range(n - 1):
        if sym_true(lambda: x == v):
            return v
    return n - 1


def ranking(r):
    return [(h["k"], h.score) for h in r]


def check_topn(q, desc, ks=(1, 2, 3)):
    engaged = False
    for (lname, wn), s in searchers().items():
        variants = [("plain", {}),
                    ("filter g:x|y", dict(filter=query.Or([query.Term("g", u"x"), query.Term("g", u"y")]))),
                    ("mask t:charlie", dict(mask=query.Term("t", u"charlie"))),
                    ("terms", dict(terms=True))]
        for vname, kw in variants:
            try:
                full = s.search(q, limit=None, **kw)
                fr = ranking(full)
            except Exception as e:  # noqa
                return "%s [%s/%s/%s] limit=None raised %s: %s" % (desc, lname, wn, vname, type(e).__name__, e)
            # exhaustive ranking is ordered by descending score, ascending document order on ties
            docorder = [d[0] for d in C.CORPUS]
            want_order = sorted(fr, key=lambda x: (-x[1], docorder.index(x[0])))
            if fr != want_order:
                return "%s [%s/%s/%s] exhaustive ranking not in (score desc, doc asc) order: %r" % (desc, lname, wn, vname, fr)
            for k in ks:
                try:
                    col = s.collector(limit=k, **kw)
                    s.search_with_collector(q, col)
                    r = col.results()
                    got = ranking(r)
                except Exception as e:  # noqa
                    return "%s [%s/%s/%s] limit=%d raised %s: %s" % (desc, lname, wn, vname, k, type(e).__name__, e)
                if got != fr[:k]:
                    return "%s [%s/%s/%s] limit=%d gives %r, exhaustive prefix is %r" % (desc, lname, wn, vname, k, got, fr[:k])
                if len(r) != len(fr):
                    return "%s [%s/%s/%s] limit=%d: len(results)=%d, exhaustive %d" % (desc, lname, wn, vname, k, len(r), len(fr))
                top = col
                while hasattr(top, "child"):
                    top = top.child
                if getattr(top, "pruned", False) or getattr(top, "skipped_times", 0):
                    engaged = True
    return None, engaged


def run_pair(op, a, b):
    la, lb = LEAVES[a], LEAVES[b]
    o = C.OPS[op]
    q = o[1](la[1](), lb[1]())
    r = check_topn(q, "%s(%s, %s)" % (o[0], la[0], lb[0]))
    return r if isinstance(r, tuple) else (r, False)


def run_boosted(op, a, b, boost_code):
    """boosted clauses: first operand boosted by 0.5 / 2 / 3"""
    la, lb = LEAVES[a], LEAVES[b]
    o = C.OPS[op]
    boost = [0.5, 2.0, 3.0][boost_code]
    qa = la[1]()
    try:
        qa = qa.with_boost(boost)
    except Exception:  # noqa
        pass
    q = o[1](qa, lb[1]())
    r = check_topn(q, "%s(%s^%s, %s)" % (o[0], la[0], boost, lb[0]), ks=(1, 2))
    return r if isinstance(r, tuple) else (r, False)


FUNCS = ["whoosh.collectors.TopCollector", "whoosh.collectors.ScoredCollector.matches", "whoosh.collectors.FilterCollector",
         "whoosh.collectors.TermsCollector", "whoosh.matching.binary.*.replace", "whoosh.matching.binary.*.skip_to_quality",
         "whoosh.matching.wrappers.*.replace", "whoosh.codec.whoosh3.W3LeafMatcher.skip_to_quality", "whoosh.scoring.BM25F",
         "whoosh.scoring.TF_IDF", "whoosh.scoring.Frequency", "whoosh.searching.Searcher.search_with_collector"]
OUT = "corpora other than the fixed 8-document corpus (posting blocks of 2), k > 3, PL2/DFree/custom weightings, final() hooks"


def _mk(op):
    name = "c05_top_" + "".join(ch if ch.isalnum() else "_" for ch in C.OPS[op][0]).strip("_").lower()

    @h(bounds="%s(a, b) over all ordered pairs of %d leaves (quick 12 of the leaf table, thorough all); k in 1..3; layouts %s; "
              "BM25F, TF_IDF, Frequency (thorough: + BM25F(B=.3,K1=2)); plain / filter / mask / terms=True" % (C.OPS[op][0], NSEL, C05_LAYOUTS),
       funcs=FUNCS, examples=[dict(a=0, b=1), dict(a=7, b=4)], outside=OUT, timeout=dict(quick=900, thorough=1800))
    def harness(a: int, b: int) -> Optional[str]:
        """
        pre: 0 <= a < NSEL and 0 <= b < NSEL
        post: _ is None
        """
        with notrace():
            r, engaged = run_pair(op, LSEL[pick(a, NSEL)], LSEL[pick(b, NSEL)])
        tick(engaged)
        return r
    harness.__name__ = harness.__qualname__ = name
    return name, harness


for _op in SCORED_OPS:
    _n, _f = _mk(_op)
    globals()[_n] = _f

BL = [0, 1, 3, 6, 12, 16]   # leaves used with boosts


@h(bounds="op(a^boost, b): op over 8 operators, a, b over 6 leaves, boost in {0.5, 2, 3}; k in 1..2; all layouts/weightings/variants",
   funcs=FUNCS + ["whoosh.matching.wrappers.WrappingMatcher"], examples=[dict(op=1, a=0, b=1, bc=0)], outside=OUT,
   timeout=dict(quick=900, thorough=1800))
def c05_boosted(op: int, a: int, b: int, bc: int) -> Optional[str]:
    """
    pre: 0 <= op < 8 and 0 <= a < 6 and 0 <= b < 6 and 0 <= bc < 3
    post: _ is None
    """
    with notrace():
        r, engaged = run_boosted(SCORED_OPS[pick(op, 8)], BL[pick(a, 6)], BL[pick(b, 6)], pick(bc, 3))
    tick(engaged)
    return r
