"""C12/C09/C05 kernel: quality bounds, score composition and threshold pruning of the shipped binary/wrapper
matcher classes over leaves with **symbolic ids and symbolic weights** (E1, data stays symbolic: z3 decides
every comparison the matcher code makes between ids, scores, bounds and the threshold).

Leaves are the shipped ListMatcher with the shipped WeightScorer (score = weight, the whole list is one block,
block/max quality = the largest weight of the list).  Weights are integers (exact arithmetic: float rounding is
outside).  For op(a, b):
  (1) stepping: at every entry score() equals the documented composition of the clause weights (C09),
      block_quality() >= score() and max_quality() >= every remaining score (C12);
  (2) after `start` steps, skip_to_quality(q) for a symbolic threshold q keeps every entry that scores more than
      q, with its score, and whatever it leaves is a suffix of the list with scores no larger than before (C12);
  (3) after `start` steps, replace(q) keeps every entry scoring more than q with its score (C12, what C05 relies on).
"""
from typing import List, Optional

from vk.prelude import h, tick, asc, inrange, tiered, notrace, sym_true
from whoosh.matching import (ListMatcher, UnionMatcher, IntersectionMatcher, AndNotMatcher, AndMaybeMatcher,
                             RequireMatcher, DisjunctionMaxMatcher, WrappingMatcher)
from whoosh.scoring import WeightScorer

NI = tiered(2, 3)      # max ids per leaf
ND = tiered(4, 5)      # ids below
WMAX = tiered(2, 3)    # weights in 1..WMAX
QMAX = 2 * WMAX + 1


def leaf(ids, ws):
    ids = list(ids)
    ws = list(ws)
    return ListMatcher(ids, ws, scorer=WeightScorer(max(ws) if ws else 0))


def model(kind, a, wa, b, wb):
    """documented composition: list of (id, score) in id order"""
    out = []
    ia = ib = 0
    while ia < len(a) or ib < len(b):
        ina = ia < len(a) and (ib >= len(b) or a[ia] <= b[ib])
        inb = ib < len(b) and (ia >= len(a) or b[ib] <= a[ia])
        d = a[ia] if ina else b[ib]
        sa = wa[ia] if ina else None
        sb = wb[ib] if inb else None
        if ina:
            ia += 1
        if inb:
            ib += 1
        if kind == "union":
            out.append((d, (sa or 0) + (sb or 0)))
        elif kind == "dismax":
            out.append((d, sa if sb is None else sb if sa is None else (sa if sa >= sb else sb)))
        elif kind == "inter":
            if ina and inb:
                out.append((d, sa + sb))
        elif kind == "require":
            if ina and inb:
                out.append((d, sa))
        elif kind == "andnot":
            if ina and not inb:
                out.append((d, sa))
        elif kind == "andmaybe":
            if ina:
                out.append((d, sa + (sb or 0)))
        elif kind == "wrap2":
            if ina:
                out.append((d, sa * 2))
    return out


MK = {
    "union": lambda a, wa, b, wb: UnionMatcher(leaf(a, wa), leaf(b, wb)),
    "dismax": lambda a, wa, b, wb: DisjunctionMaxMatcher(leaf(a, wa), leaf(b, wb)),
    "inter": lambda a, wa, b, wb: IntersectionMatcher(leaf(a, wa), leaf(b, wb)),
    "require": lambda a, wa, b, wb: RequireMatcher(leaf(a, wa), leaf(b, wb)),
    "andnot": lambda a, wa, b, wb: AndNotMatcher(leaf(a, wa), leaf(b, wb)),
    "andmaybe": lambda a, wa, b, wb: AndMaybeMatcher(leaf(a, wa), leaf(b, wb)),
    "wrap2": lambda a, wa, b, wb: WrappingMatcher(UnionMatcher(leaf(a, wa), leaf([], [])), boost=2),
}


def rest_of(m):
    out = []
    n = 0
    while m.is_active():
        out.append((m.id(), m.score()))
        m.next()
        n += 1
        if n > 30:
            raise Exception("runaway matcher")
    return out


def run(kind, a, wa, b, wb, start, q):
    L = model(kind, a, wa, b, wb)
    mk = MK[kind]
    # (1) stepping: composition and bounds
    m = mk(a, wa, b, wb)
    i = 0
    while m.is_active():
        if i >= len(L):
            return "%s: extra entry %r after the list %r" % (kind, m.id(), L)
        d, sc = m.id(), m.score()
        if (d, sc) != L[i]:
            return "%s: entry %d is %r, documented composition gives %r" % (kind, i, (d, sc), L[i])
        if m.supports_block_quality():
            bq = m.block_quality()
            if bq < sc:
                return "%s: block_quality() = %r < score() = %r at %r" % (kind, bq, sc, d)
            mq = m.max_quality()
            for d2, s2 in L[i:]:
                if mq < s2:
                    return "%s: max_quality() = %r at %r < later score %r" % (kind, mq, d, (d2, s2))
        m.next()
        i += 1
    if i != len(L):
        return "%s: list ends after %d entries, model has %r" % (kind, i, L)
    if start >= len(L):
        return None
    tail = L[start:]
    # (2) skip_to_quality(q)
    m = mk(a, wa, b, wb)
    for _ in range(start):
        m.next()
    if m.supports_block_quality():
        m.skip_to_quality(q)
        rest = rest_of(m)
        j = 0
        for d, sc in rest:
            while j < len(tail) and tail[j][0] != d:
                if tail[j][1] > q:
                    return "%s: skip_to_quality(%r) after %d steps passed over %r (list %r, left %r)" % (kind, q, start, tail[j], L, rest)
                j += 1
            if j >= len(tail):
                return "%s: after skip_to_quality(%r) the matcher yields %r, not in the rest of %r" % (kind, q, d, L)
            if sc > tail[j][1] or (tail[j][1] > q and sc != tail[j][1]):
                return "%s: after skip_to_quality(%r) %r scores %r, was %r" % (kind, q, d, sc, tail[j][1])
            j += 1
        while j < len(tail):
            if tail[j][1] > q:
                return "%s: skip_to_quality(%r) after %d steps lost %r (list %r, left %r)" % (kind, q, start, tail[j], L, rest)
            j += 1
    # (3) replace(q)
    m = mk(a, wa, b, wb)
    for _ in range(start):
        m.next()
    r = m.replace(q)
    rest = rest_of(r)
    j = 0
    for d, sc in tail:
        if sc > q:
            while j < len(rest) and rest[j][0] < d:
                j += 1
            if j >= len(rest) or rest[j][0] != d:
                return "%s: replace(%r) after %d steps removed %r (list %r, left %r)" % (kind, q, start, (d, sc), L, rest)
            if rest[j][1] != sc:
                return "%s: replace(%r) changed the score of %r to %r" % (kind, q, (d, sc), rest[j][1])
    return None


EX = [dict(pa=6, pb=4, wa=[2, 1, 1], wb=[1, 3, 1], start=0, q=2), dict(pa=2, pb=0, wa=[1, 1, 1], wb=[1, 1, 1], start=0, q=0)]
FUNCS = ["whoosh.matching.mcore.ListMatcher", "whoosh.scoring.WeightScorer"]
OUT = "lists longer than the bound, non-integer weights (float rounding), leaves with several blocks (covered by c12_bounds_* on real segments)"


IDP = [[], [0], [1], [0, 1], [0, 2], [1, 2], [1, 3], [0, 1, 2]]    # id patterns of a leaf (chosen by a code, resolved by the solver)
NP = len(IDP)


def pick(x, n):
    for v in range(n - 1):
        if sym_true(lambda: x == v):
            return v
    return n - 1


def _mk(kind, cls):
    name = "c12_sym_" + kind

    @h(bounds="%s over ListMatcher leaves: symbolic ascending ids (<=%d ids below %d per leaf), symbolic integer weights 1..%d, symbolic start 0..%d, "
              "symbolic threshold 0..%d" % (kind, NI, ND, WMAX, NI, QMAX),
       funcs=FUNCS + [cls], examples=EX, outside=OUT, timeout=dict(quick=600, thorough=1800))
    def harness(pa: int, pb: int, wa: List[int], wb: List[int], start: int, q: int) -> Optional[str]:
        """
        pre: 0 <= pa < NP and 0 <= pb < NP and inrange(wa, 1, WMAX, 3) and inrange(wb, 1, WMAX, 3) and 0 <= start <= 2 and 0 <= q <= QMAX
        post: _ is None
        """
        with notrace():
            a = IDP[pick(pa, NP)]
            b = IDP[pick(pb, NP)]
            st = pick(start, 3)
        r = run(kind, a, wa[:len(a)], b, wb[:len(b)], st, q)
        tick(len(a) > 0 and len(b) > 0)
        return r
    harness.__name__ = harness.__qualname__ = name
    return name, harness


for _k, _c in [("union", "whoosh.matching.binary.UnionMatcher"), ("dismax", "whoosh.matching.binary.DisjunctionMaxMatcher"),
               ("inter", "whoosh.matching.binary.IntersectionMatcher"), ("require", "whoosh.matching.wrappers.RequireMatcher"),
               ("andnot", "whoosh.matching.binary.AndNotMatcher"), ("andmaybe", "whoosh.matching.binary.AndMaybeMatcher"),
               ("wrap2", "whoosh.matching.wrappers.WrappingMatcher")]:
    _n, _f = _mk(_k, _c)
    globals()[_n] = _f
