"""C09: scores are the documented composition of the weighting model's term scores.

H3 (E1, symbolic query codes, native pipeline): for op(a, b) the score of every hit equals the
documented combination of the scores the clauses a and b give that document when searched alone on
the same searcher; scores are identical on the one-segment and the two-segment layout (no deletions).
H2 (E3, z3 reals on the real function objects): bm25() equals the textbook formula; idf() is positive
and the scorers carry the *parent* searcher's collection statistics.
H4 (E2 pybmc): length_to_byte/byte_to_length are monotone and consistent."""
import math
from typing import Optional

import z3

from vk.prelude import THOROUGH, h, tick, tiered, concrete_arrays, notrace, sym_true
from vk.smt import q as smtq
from vk import corpus as C
from whoosh import scoring, query

concrete_arrays()

LEAVES = C.leaves()
LSEL = list(range(len(LEAVES))) if THOROUGH else [0, 1, 2, 5, 6, 9, 11, 12, 14, 16, 17, 18]
NSEL = len(LSEL)
EPS = 1e-9
_S = {}

# op index -> combination of (sa or None, sb or None) -> expected score or None (= no hit)
COMBINE = {
    0: lambda sa, sb: None if sa is None or sb is None else sa + sb,                       # And
    1: lambda sa, sb: None if sa is None and sb is None else (sa or 0.0) + (sb or 0.0),    # Or
    2: lambda sa, sb: None if sa is None and sb is None else (sa or 0.0) + (sb or 0.0),    # Or (array)
    3: lambda sa, sb: sa if sb is None else None,                                          # AndNot
    4: lambda sa, sb: None if sa is None else sa + (sb or 0.0),                            # AndMaybe
    5: lambda sa, sb: None if sa is None or sb is None else sa,                            # Require
    6: lambda sa, sb: None if sa is None and sb is None else max(x for x in (sa, sb) if x is not None),  # DisMax
    9: lambda sa, sb: None if sa is None and sb is None else 2.0,                          # ConstantScore(Or, 2.0)
}


class FinalBM25F(scoring.BM25F):
    """a weighting with a final() hook that depends on the document: the score is multiplied by 1 + n/1000 of that document
    (n read from the stored fields of the *global* document number on the top-level searcher)"""
    use_final = True

    def final(self, searcher, docnum, score):
        n = searcher.stored_fields(docnum).get("n")
        return score * (1.0 + (n or 0) / 1000.0)


def _fn_weight(searcher, fieldname, text, matcher):
    return matcher.weight() * 1.5 + 0.25


FINAL_OF = {"Final(BM25F)": "BM25F"}


def weightings():
    return [("BM25F", lambda: scoring.BM25F()), ("BM25F(t_B=0.2)", lambda: scoring.BM25F(B=0.9, K1=1.5, t_B=0.2)),
            ("TF_IDF", lambda: scoring.TF_IDF()), ("Frequency", lambda: scoring.Frequency()),
            # PL2/DFree: their values are not modelled (transcendental), but composition and layout independence are asserted
            ("PL2", lambda: scoring.PL2()), ("DFree", lambda: scoring.DFree()),
            ("Multi(BM25F, g=Frequency)", lambda: scoring.MultiWeighting(scoring.BM25F(), g=scoring.Frequency())),
            ("Reverse(TF_IDF)", lambda: scoring.ReverseWeighting(scoring.TF_IDF())),
            ("Function(1.5w+.25)", lambda: scoring.FunctionWeighting(_fn_weight)),
            ("Final(BM25F)", lambda: FinalBM25F())]


def searchers():
    if not _S:
        for name in C.LAYOUTS:
            ix = C.build_layout(name)
            for wn, mk in weightings():
                _S[(name, wn)] = ix.searcher(weighting=mk())
    return _S


def pick(x, n):
    for v in range(n - 1):
        if sym_true(lambda: x == v):
            return v
    return n - 1


def scores(s, q):
    return dict((hit["k"], hit.score) for hit in s.search(q, limit=None))


def close(a, b):
    return abs(a - b) <= EPS * max(1.0, abs(a), abs(b))


def check(op, a, b, boost):
    la, lb = LEAVES[a], LEAVES[b]
    o = C.OPS[op]
    desc = "%s(%s%s, %s)" % (o[0], la[0], "^%s" % boost if boost != 1.0 else "", lb[0])
    per_layout = {}
    for (lname, wn), s in searchers().items():
        qa = la[1]()
        if boost != 1.0:
            qa = qa.with_boost(boost)
        try:
            sa = scores(s, qa)
            sb = scores(s, lb[1]())
            sq = scores(s, o[1](qa, lb[1]()))
        except Exception as e:  # noqa
            return "%s [%s/%s] raised %s: %s" % (desc, lname, wn, type(e).__name__, e)
        per_layout[(lname, wn)] = sq
        # the score of a hit does not depend on the collector: a limited search reports the same score for the documents it returns
        for lim in (1, 2):
            try:
                rl = s.search(o[1](qa, lb[1]()), limit=lim)
                for hit in rl:
                    if hit["k"] not in sq or not close(hit.score, sq[hit["k"]]):
                        return "%s [%s/%s] limit=%d reports %r for %s, the exhaustive search %r" % (desc, lname, wn, lim, hit.score, hit["k"], sq.get(hit["k"]))
            except Exception as e:  # noqa
                return "%s [%s/%s] limit=%d raised %s: %s" % (desc, lname, wn, lim, type(e).__name__, e)
        if wn in FINAL_OF:
            # final() is applied exactly once per hit, to the composed score, with the hit's own (global) document number
            plain = per_layout[(lname, FINAL_OF[wn])]
            nof = dict((d[0], d[2]) for d in C.CORPUS)
            if set(plain) != set(sq):
                return "%s [%s/%s] different hits with and without the final() hook" % (desc, lname, wn)
            for k, v in sq.items():
                want = plain[k] * (1.0 + (nof[k] or 0) / 1000.0)
                if not close(v, want):
                    return "%s [%s/%s] document %s (n=%r) scores %r, expected final(%r) = %r" % (desc, lname, wn, k, nof[k], v, plain[k], want)
            continue
        comb = COMBINE.get(op)
        if comb is not None:
            for d in C.CORPUS:
                k = d[0]
                want = comb(sa.get(k), sb.get(k))
                got = sq.get(k)
                if (want is None) != (got is None):
                    return "%s [%s/%s] document %s: hit=%s, clause scores a=%r b=%r" % (desc, lname, wn, k, got is not None, sa.get(k), sb.get(k))
                if want is not None and not close(want, got):
                    return "%s [%s/%s] document %s scores %r, composition of the clause scores (a=%r, b=%r) is %r" % (
                        desc, lname, wn, k, got, sa.get(k), sb.get(k), want)
        if boost != 1.0:
            # the boosted clause alone scores boost x the unboosted clause
            base = scores(s, la[1]())
            for k, v in sa.items():
                if k in base and not close(v, base[k] * boost) and a not in (16, 17, 21):      # (Every and span queries take no boost of their own)
                    return "%s [%s/%s] clause %s^%s scores %r for %s, unboosted %r" % (desc, lname, wn, la[0], boost, v, k, base[k])
    # layout independence without deletions
    for wn, _ in weightings():
        one, two = per_layout[("one", wn)], per_layout[("two", wn)]
        if set(one) != set(two):
            return "%s [%s] different hits on one vs two segments" % (desc, wn)
        for k in one:
            if not close(one[k], two[k]):
                return "%s [%s] document %s scores %r on one segment, %r on two" % (desc, wn, k, one[k], two[k])
    return None


FUNCS = ["whoosh.matching.binary.*.score", "whoosh.matching.wrappers.*.score", "whoosh.scoring.BM25F", "whoosh.scoring.BM25FScorer",
         "whoosh.scoring.TF_IDF", "whoosh.scoring.Frequency", "whoosh.searching.Searcher.idf", "whoosh.searching.Searcher.avg_field_length",
         "whoosh.collectors.ScoredCollector.collect"]


def _mk(op):
    name = "c09_comp_" + "".join(ch if ch.isalnum() else "_" for ch in C.OPS[op][0]).strip("_").lower()

    @h(bounds="%s(a[^boost], b) over all ordered pairs of %d leaves, boost in {1, 2, 0.5}; 5 layouts x (BM25F, BM25F with per-field B, TF_IDF, Frequency); "
              "every corpus document; relative tolerance 1e-9" % (C.OPS[op][0], NSEL),
       funcs=FUNCS, examples=[dict(a=0, b=1, bc=0), dict(a=7, b=3, bc=1)], timeout=dict(quick=900, thorough=3000),
       outside="the numeric values of PL2/DFree scores (only their composition and layout independence are asserted), floating-point summation order beyond the tolerance, CoordMatcher scaling")
    def harness(a: int, b: int, bc: int) -> Optional[str]:
        """
        pre: 0 <= a < NSEL and 0 <= b < NSEL and 0 <= bc < 3
        post: _ is None
        """
        with notrace():
            r = check(op, LSEL[pick(a, NSEL)], LSEL[pick(b, NSEL)], [1.0, 2.0, 0.5][pick(bc, 3)])
        tick(True)
        return r
    harness.__name__ = harness.__qualname__ = name
    return name, harness


for _op in range(len(C.OPS)):
    _n, _f = _mk(_op)
    globals()[_n] = _f


# ------------------------------------------------------------------ H2: formulas on z3 reals (E3)
def rp_bm25(idf, tf, fl, avgfl, B, K1):
    got = scoring.bm25(idf, tf, fl, avgfl, B, K1)
    want = idf * ((tf * (K1 + 1)) / (tf + K1 * ((1 - B) + B * fl / avgfl)))
    if abs(got - want) > 1e-9 * max(1.0, abs(want)):
        return "bm25(%r) = %r, textbook %r" % ((idf, tf, fl, avgfl, B, K1), got, want)
    return None


def rp_bm25_mono(idf, tf1, tf2, fl1, fl2, avgfl, B, K1):
    a = scoring.bm25(idf, tf1, fl1, avgfl, B, K1)
    b = scoring.bm25(idf, tf2, fl2, avgfl, B, K1)
    if tf1 <= tf2 and fl1 >= fl2 and a > b + 1e-12:
        return "bm25 not monotone: tf %r<=%r, len %r>=%r but %r > %r" % (tf1, tf2, fl1, fl2, a, b)
    return None


def _val(m, x):
    v = m.eval(x, model_completion=True)
    return float(v.numerator_as_long()) / float(v.denominator_as_long())


@smtq(bounds="all real idf>0, tf>0, fl>=1, avgfl>0, 0<=B<=1, K1>=0 (exact real arithmetic; float rounding outside)",
      funcs=["whoosh.scoring.bm25"], outside="floating point rounding")
def c09_bm25_formula(rep):
    idf, tf, fl, avgfl, B, K1 = z3.Reals("idf tf fl avgfl B K1")
    tf2, fl2 = z3.Reals("tf2 fl2")
    dom = [idf > 0, tf > 0, fl >= 1, avgfl > 0, B >= 0, B <= 1, K1 >= 0, tf2 > 0, fl2 >= 1]
    real = scoring.bm25(idf, tf, fl, avgfl, B, K1)           # the real function object on z3 terms
    book = idf * ((tf * (K1 + 1)) / (tf + K1 * ((1 - B) + B * fl / avgfl)))
    s = z3.Solver()
    s.set("timeout", 60000)
    import time
    for name, bad, mk in [
        ("equals textbook formula", real != book, lambda m: "rp_bm25(%r, %r, %r, %r, %r, %r)" % tuple(_val(m, x) for x in (idf, tf, fl, avgfl, B, K1))),
        ("monotone in tf (up) and length (down)", z3.And(tf <= tf2, fl >= fl2, real > scoring.bm25(idf, tf2, fl2, avgfl, B, K1)),
         lambda m: "rp_bm25_mono(%r, %r, %r, %r, %r, %r, %r, %r)" % tuple(_val(m, x) for x in (idf, tf, tf2, fl, fl2, avgfl, B, K1))),
        ("positive", real <= 0, lambda m: "rp_bm25(%r, %r, %r, %r, %r, %r)" % tuple(_val(m, x) for x in (idf, tf, fl, avgfl, B, K1))),
    ]:
        s.push()
        s.add(*dom)
        s.add(bad)
        t0 = time.time()
        r = s.check()
        rep.queries += 1
        rep.solver_s += time.time() - t0
        if r == z3.unsat:
            rep.held("bm25 " + name)
        elif r == z3.sat:
            rep.violation("bm25 " + name, mk(s.model()))
        else:
            rep.inconclusive("bm25 " + name, "unknown")
        s.pop()
    # vacuity guard: with B > 1 monotonicity in length must fail (the encoding is not trivially unsat)
    s.push()
    s.add(idf > 0, tf > 0, fl >= 1, avgfl > 0, B > 1, K1 >= 0, tf2 == tf, fl2 >= 1, fl >= fl2,
          scoring.bm25(idf, tf, fl, avgfl, B, K1) > scoring.bm25(idf, tf2, fl2, avgfl, B, K1))
    r = s.check()
    rep.queries += 1
    if r != z3.sat:
        rep.inconclusive("bm25 vacuity guard", "expected sat for B>1, got %s" % r)
    s.pop()
    rep.sample({"function": "bm25", "obligations": 3})
