"""C17: index- and query-time analysis agree - documents are findable by their own words (E1:
symbolic text-atom codes; the real analyzers, field indexing, parser text processing, searcher and
highlighter run natively).

The document text is the concatenation of L atoms chosen by symbolic codes from an alphabet of text
fragments (mixed case, intra-word delimiters, stop words, inflected words, digits, accents, sharp s,
CJK, non-BMP, URL, HTML-significant characters, punctuation, whitespace kinds, a 70-character token).
One job per shipped analyzer configuration.  Asserted for every text:
  * every index-time token is found by a Term query;
  * the conjunction of the query-time tokens of the same text (field.process_text(mode='query'), what
    the parser does) finds the document, and so does the parser's own term_query;
  * for every run of 2 and 3 consecutive positions, the phrase of (any) tokens at those positions finds it;
  * positions never decrease in order of appearance, 0 <= startchar <= endchar <= len(text), and for
    offset-preserving analyzers re-analysing text[startchar:endchar] yields the token's text;
  * highlights with every fragmenter x {Html, Uppercase} formatter, stripped of markup (and HTML-unescaped),
    are substrings of the original text, and every marked span is the source text of a matched term."""
import random
import re
from typing import Optional

try:
    from html import unescape
except ImportError:  # pragma: no cover
    unescape = None

from vk.prelude import THOROUGH, h, tick, tiered, concrete_arrays, notrace, sym_true
from whoosh import fields, query, analysis, highlight, qparser
from whoosh.analysis import (RegexTokenizer, LowercaseFilter, StopFilter, IntraWordFilter, BiWordFilter, ShingleFilter, CharsetFilter, MultiFilter,
                             TeeFilter, StemFilter, DoubleMetaphoneFilter, SubstitutionFilter, StripFilter, ReverseTextFilter, SpaceSeparatedTokenizer,
                             CommaSeparatedTokenizer, PassFilter)
from whoosh.filedb.filestore import RamStorage
from whoosh.support.charset import accent_map

concrete_arrays()

ATOMS = [u"alfa", u"Bravo", u" ", u"-", u"Wi-Fi ", u"Fi", u"the", u"running", u"2000", u"é", u"&amp;", u"<b>", u". ", u"PowerShot ",
         u"Wi", u"&", u",", u"_",
         u"'s", u"ß", u"http://a.b/c?d=1", u"\U0001F600", u"x" * 70, u"日本", u"ICs",
         u"\t", u"@", u"a", u"to", u"\n", u"ü"]
NA = tiered(14, 18)       # quick: the first 14 atoms, thorough: the first 18 (the full table is swept concretely during development only)


def _iw_documented():
    iwf_i = IntraWordFilter(mergewords=True, mergenums=True)
    iwf_q = IntraWordFilter(mergewords=False, mergenums=False)
    return RegexTokenizer(r"\S+") | MultiFilter(index=iwf_i, query=iwf_q) | LowercaseFilter()


# name, factory, exact offsets (re-analysing text[sc:ec] yields the token), positional phrases meaningful
ANALYZERS = [
    ("Standard", lambda: analysis.StandardAnalyzer(), True, True),
    ("Standard(no stop, minsize 1)", lambda: analysis.StandardAnalyzer(stoplist=None, minsize=1), True, True),
    ("Simple", lambda: analysis.SimpleAnalyzer(), True, True),
    ("Stemming", lambda: analysis.StemmingAnalyzer(), True, True),
    ("Fancy", lambda: analysis.FancyAnalyzer(), False, True),
    ("Keyword", lambda: analysis.KeywordAnalyzer(), True, True),
    ("Keyword(commas, lowercase)", lambda: analysis.KeywordAnalyzer(lowercase=True, commas=True), True, True),
    ("ID", lambda: analysis.IDAnalyzer(), True, True),
    ("Language(en)", lambda: analysis.LanguageAnalyzer("en"), True, True),
    ("Language(de)", lambda: analysis.LanguageAnalyzer("de"), True, True),
    ("Ngram(2,3)", lambda: analysis.NgramAnalyzer(2, 3), True, False),
    ("NgramWord(2,3)", lambda: analysis.NgramWordAnalyzer(2, 3), False, False),
    ("Standard|Charset(accent)", lambda: analysis.StandardAnalyzer(stoplist=None, minsize=1) | CharsetFilter(accent_map), True, True),
    ("Regex(\\S+)|IntraWord|Lowercase", lambda: RegexTokenizer(r"\S+") | IntraWordFilter() | LowercaseFilter(), False, True),
    ("IntraWord documented index/query pair", _iw_documented, False, True),
    ("Regex(\\S+)|IntraWord(merge)|Lowercase|Stop", lambda: RegexTokenizer(r"\S+") | IntraWordFilter(mergewords=True, mergenums=True) | LowercaseFilter() | StopFilter(), False, True),
    ("Simple|BiWord", lambda: analysis.SimpleAnalyzer() | BiWordFilter(), False, False),
    ("Simple|Shingle(2)", lambda: analysis.SimpleAnalyzer() | ShingleFilter(2), False, False),
    ("Simple|DoubleMetaphone(combine)", lambda: analysis.SimpleAnalyzer() | DoubleMetaphoneFilter(combine=True), False, False),
    ("Simple|Tee(Pass, Reverse)", lambda: analysis.SimpleAnalyzer() | TeeFilter(PassFilter(), ReverseTextFilter()), False, False),
    ("SpaceSeparated|Strip|Substitution", lambda: SpaceSeparatedTokenizer() | StripFilter() | SubstitutionFilter(u"-", u""), False, True),
    ("CommaSeparated", lambda: CommaSeparatedTokenizer(), False, True),
    ("Standard(stop words, renumber=False)", lambda: RegexTokenizer() | LowercaseFilter() | StopFilter(renumber=False), True, True),
    ("Regex(gaps)", lambda: RegexTokenizer(r"[\s,.]+", gaps=True) | LowercaseFilter(), True, True),
]
NAN = len(ANALYZERS)
SEP = u"\x00|\x00"
_CACHE = {}


def pick(x, n):
    for v in range(n - 1):
        if sym_true(lambda: x == v):
            return v
    return n - 1


def toklist(ana, text, **kw):
    return [(t.text, t.pos, t.startchar, t.endchar) for t in ana(text, positions=True, chars=True, **kw)]


def strip_html(s):
    marked = [unescape(m) for m in re.findall(r"<strong[^>]*>(.*?)</strong>", s, re.S)]
    bare = re.sub(r"</?strong[^>]*>", u"", s)
    if u"<" in bare or u">" in bare:
        return None, bare         # the text between the formatter's own tags must be escaped
    return unescape(bare), marked


def check(ai, text):
    name, mk, exact, positional = ANALYZERS[ai]
    random.seed(37)
    if ai not in _CACHE:
        _CACHE[ai] = mk()
    ana = _CACHE[ai]
    where = "%s analyzer, text %r" % (name, text)
    try:
        itoks = toklist(ana, text, mode="index")
    except Exception as e:  # noqa
        import traceback
        return "%s: index-time analysis raised %s: %s | %s" % (where, type(e).__name__, e, traceback.format_exc()[-250:].replace("\n", " "))
    # positions / offsets
    last = -1
    for tx, pos, sc, ec in itoks:
        if pos is None or pos < last:
            return "%s: token %r has position %r after position %r" % (where, tx, pos, last)
        last = pos
        if sc is None or ec is None or not (0 <= sc <= ec <= len(text)):
            return "%s: token %r has character range %r..%r outside the text" % (where, tx, sc, ec)
        if exact:
            again = [t[0] for t in toklist(ana, text[sc:ec], mode="index")]
            if tx not in again:
                return "%s: token %r claims source text[%d:%d] = %r, which analyses to %r" % (where, tx, sc, ec, text[sc:ec], again)
    if not itoks:
        return None
    field = fields.TEXT(analyzer=ana, phrase=True, chars=True, stored=True)
    # f2: a second field with the same analyzer and text, so that a word of the text can be queried in another field only
    schema = fields.Schema(k=fields.ID(stored=True), f=field, f2=fields.TEXT(analyzer=ana, phrase=False, stored=False))
    st = RamStorage()
    ix = st.create_index(schema)
    w = ix.writer()
    w.add_document(k=u"other", f=u"zulu yankee", f2=u"zulu")
    w.add_document(k=u"doc", f=text, f2=text)
    w.commit()
    # query time: the index is opened again, so the schema (and with it the analyzer) is the one read back from the TOC
    # (pickle round trip) - what every later process gets (seed C17-3: a stemming filter lost its language there)
    ix = st.open_index()
    schema = ix.schema
    field = schema["f"]
    try:
        with ix.searcher() as s:
            def finds(q):
                return u"doc" in [hit["k"] for hit in s.search(q, limit=None)]
            for tx, pos, sc, ec in itoks:
                if not finds(query.Term("f", tx)):
                    return "%s: Term(%r) (an index-time token) does not find the document" % (where, tx)
            qtexts = list(field.process_text(text, mode="query"))
            if qtexts and not finds(query.And([query.Term("f", t) for t in qtexts])):
                return "%s: the conjunction of the query-time tokens %r does not find the document (index-time tokens %r)" % (where, qtexts, [t[0] for t in itoks])
            p = qparser.QueryParser("f", schema)
            pq = p.term_query("f", text, query.Term)
            if pq is not None and not finds(pq):
                return "%s: the parser's term_query %r does not find the document (index-time tokens %r)" % (where, pq, [t[0] for t in itoks])
            if positional:
                bypos = {}
                for tx, pos, sc, ec in itoks:
                    bypos.setdefault(pos, []).append(tx)
                for n in (2, 3):
                    for p0 in sorted(bypos):
                        if all((p0 + i) in bypos for i in range(n)):
                            for pickn in (0, -1):
                                words = [bypos[p0 + i][pickn] for i in range(n)]
                                if not finds(query.Phrase("f", words)):
                                    return "%s: Phrase(%r) (tokens at consecutive positions %d..%d) does not find the document; tokens %r" % (
                                        where, words, p0, p0 + n - 1, [(t[0], t[1]) for t in itoks])
            # highlights
            term = itoks[len(itoks) // 2][0]
            # ... together with another word of the text queried in the *other* field only: it is a matched term of f2, not of f,
            # and must not be marked in the excerpt of f (seed C17-4)
            others = [t[0] for t in itoks if t[0] != term and not any((t[2] < e and sc_ < t[3]) for tx_, p_, sc_, e in itoks if tx_ == term)]
            hq = query.Term("f", term) if not others else query.Or([query.Term("f", term), query.Term("f2", others[0])])
            hits = s.search(hq, limit=None, terms=True)
            hit = [h_ for h_ in hits if h_["k"] == u"doc"][0]
            # a marked span is the source text of one matched token or of a chain of adjacent/overlapping matched tokens
            rngs = sorted(set((sc, ec) for tx, pos, sc, ec in itoks if tx == term))
            sources = set()
            for i in range(len(rngs)):
                end = rngs[i][1]
                sources.add(text[rngs[i][0]:end])
                for j in range(i + 1, len(rngs)):
                    if rngs[j][0] > end:
                        break
                    end = max(end, rngs[j][1])
                    sources.add(text[rngs[i][0]:end])
            for fname, frag in (("Whole", highlight.WholeFragmenter()), ("Context", highlight.ContextFragmenter(maxchars=30, surround=4)),
                                ("Sentence", highlight.SentenceFragmenter(maxchars=40)), ("Pinpoint", highlight.PinpointFragmenter(maxchars=30, surround=4, autotrim=True))):
                for foname, fmt in (("Html", highlight.HtmlFormatter(between=SEP)), ("Uppercase", highlight.UppercaseFormatter(between=SEP))):
                    hits.fragmenter = frag
                    hits.formatter = fmt
                    try:
                        out = hit.highlights("f", top=5)
                    except Exception as e:  # noqa
                        import traceback
                        return "%s: highlights(%s, %s) for %r raised %s: %s | %s" % (where, fname, foname, term, type(e).__name__, e, traceback.format_exc()[-250:].replace("\n", " "))
                    if not out:
                        continue
                    for piece in out.split(SEP):
                        if foname == "Html":
                            plain, marked = strip_html(piece)
                            if plain is None:
                                return "%s: highlights(%s, Html) for %r piece %r contains unescaped markup characters" % (where, fname, term, piece)
                            if plain not in text:
                                return "%s: highlights(%s, Html) for %r piece %r, stripped %r, is not a substring of the text" % (where, fname, term, piece, plain)
                            for m in marked:
                                if m not in sources:
                                    return "%s: highlights(%s, Html) for %r marks %r, the matched term's source text is %r" % (where, fname, term, m, sorted(sources))
                        else:
                            if piece.lower() not in text.lower() and piece.upper() not in text.upper():
                                return "%s: highlights(%s, Uppercase) for %r piece %r is not a substring of the text (case-insensitively)" % (where, fname, term, piece)
                    if foname == "Html" and fname == "Whole":
                        plain, marked = strip_html(out)
                        if plain is None:
                            return "%s: highlights(Whole, Html) output %r contains unescaped markup characters" % (where, out)
                        if plain != text:
                            return "%s: highlights(Whole, Html) stripped is %r, not the whole text" % (where, plain)
                        if sum(len(m_) for m_ in marked) < max(ec - sc for sc, ec in rngs) or not marked:
                            return "%s: highlights(Whole, Html) marks %r, the term %r occurs at %r" % (where, marked, term, rngs)
    except Exception as e:  # noqa
        import traceback
        return "%s: raised %s: %s | %s" % (where, type(e).__name__, e, traceback.format_exc()[-300:].replace("\n", " "))
    return None


FUNCS = ["whoosh.analysis.acore.Token", "whoosh.analysis.analyzers.*", "whoosh.analysis.tokenizers.*", "whoosh.analysis.filters.*", "whoosh.analysis.intraword.*",
         "whoosh.analysis.morph.*", "whoosh.analysis.ngrams.*", "whoosh.fields.FieldType.index", "whoosh.fields.FieldType.process_text", "whoosh.formats.Characters.word_values",
         "whoosh.qparser.default.QueryParser.term_query", "whoosh.query.positional.Phrase", "whoosh.highlight.Highlighter.highlight_hit", "whoosh.highlight.*Fragmenter",
         "whoosh.highlight.HtmlFormatter", "whoosh.highlight.UppercaseFormatter", "whoosh.highlight.set_matched_filter"]
LQ = 3


def _mk(ai):
    name = "c17_" + "".join(ch if ch.isalnum() else "_" for ch in ANALYZERS[ai][0]).strip("_").lower()
    while "__" in name:
        name = name.replace("__", "_")

    @h(bounds="analyzer %s; every text of %d atoms from a %d-atom alphabet (mixed case, hyphen%s, compound words followed by a space, stop word, inflected word, digits, accent, '&amp;', '<b>', "
              "punctuation); Term per index token, query-time conjunction, parser term_query, phrases of 2 and 3 consecutive positions, position monotonicity, "
              "offsets, highlights with 4 fragmenters x 2 formatters"
              % (ANALYZERS[ai][0], LQ, NA, "/underscore, '&', comma" if THOROUGH else ""),
       funcs=FUNCS, examples=[dict(a=0, b=2, c=1), dict(a=4, b=3, c=5)], timeout=dict(quick=900, thorough=3000),
       outside="texts of more than 3 atoms, atoms outside the alphabet, analyzers not in the table (other languages' stemmers, custom chains)")
    def harness(a: int, b: int, c: int) -> Optional[str]:
        """
        pre: 0 <= a < NA and 0 <= b < NA and 0 <= c < NA
        post: _ is None
        """
        with notrace():
            r = check(ai, ATOMS[pick(a, NA)] + ATOMS[pick(b, NA)] + ATOMS[pick(c, NA)])
        tick(True)
        return r
    harness.__name__ = harness.__qualname__ = name
    return name, harness


for _ai in range(NAN):
    _n, _f = _mk(_ai)
    globals()[_n] = _f
