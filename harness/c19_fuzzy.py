"""C19: fuzzy matching and spelling suggestions are exact with respect to edit distance (E1).

Words are chosen by symbolic codes from all words up to length 3 (thorough 4) over a 3-letter
alphabet; the lexicon is a fixed confusable set indexed in one and in three segments.  The real distance
functions, Levenshtein automaton, term cursors, FuzzyTerm and correctors run natively and are
compared with an independent recursive definition of the documented (Damerau-Levenshtein, adjacent
transposition = 1 edit) distance."""
import itertools
import random
from typing import Optional

from vk.prelude import THOROUGH, h, tick, tiered, concrete_arrays, notrace, sym_true
from whoosh import fields, query
from whoosh.filedb.filestore import RamStorage
from whoosh.support import levenshtein as LV

concrete_arrays()

ALPHA = u"abc"
MAXLEN = tiered(3, 4)
WORDS = [u""] + [u"".join(p) for n in range(1, MAXLEN + 1) for p in itertools.product(ALPHA, repeat=n)]
NW = len(WORDS)
# lexicon: word -> total frequency pattern (docs it occurs in with term frequency)
LEXICON = {u"ab": [2], u"ba": [1, 1], u"abc": [1], u"b": [3], u"a": [1], u"acb": [1, 2], u"bab": [1], u"cab": [1, 1, 1], u"é": [1], u"abé": [2]}
_S = {}


def ref_distance(a, b):
    """optimal-string-alignment Damerau-Levenshtein (what whoosh.support.levenshtein implements and documents)"""
    la, lb = len(a), len(b)
    d = [[0] * (lb + 1) for _ in range(la + 1)]
    for i in range(la + 1):
        d[i][0] = i
    for j in range(lb + 1):
        d[0][j] = j
    for i in range(1, la + 1):
        for j in range(1, lb + 1):
            cost = 0 if a[i - 1] == b[j - 1] else 1
            d[i][j] = min(d[i - 1][j] + 1, d[i][j - 1] + 1, d[i - 1][j - 1] + cost)
            if i > 1 and j > 1 and a[i - 1] == b[j - 2] and a[i - 2] == b[j - 1]:
                d[i][j] = min(d[i][j], d[i - 2][j - 2] + 1)
    return d[la][lb]


def ref_lev(a, b):
    la, lb = len(a), len(b)
    prev = list(range(lb + 1))
    for i in range(1, la + 1):
        cur = [i] + [0] * lb
        for j in range(1, lb + 1):
            cur[j] = min(prev[j] + 1, cur[j - 1] + 1, prev[j - 1] + (a[i - 1] != b[j - 1]))
        prev = cur
    return prev[lb]


def build(nseg):
    random.seed(29)
    schema = fields.Schema(k=fields.ID(stored=True), f=fields.KEYWORD(stored=True, scorable=True))
    st = RamStorage()
    ix = st.create_index(schema)
    docs = []
    for w, pattern in sorted(LEXICON.items()):
        for i, tf in enumerate(pattern):
            docs.append((u"%s#%d" % (w, i), u" ".join([w] * tf)))
    random.shuffle(docs)
    per = (len(docs) + nseg - 1) // nseg
    for si in range(nseg):
        w_ = ix.writer()
        for k, text in docs[si * per:(si + 1) * per]:
            w_.add_document(k=k, f=text)
        w_.commit(merge=False)
    return ix, dict(docs)


def searchers():
    if not _S:
        for n in (1, 3):
            ix, docs = build(n)
            _S[n] = (ix.searcher(), docs)
    return _S


def pick(x, n):
    for v in range(n - 1):
        if sym_true(lambda: x == v):
            return v
    return n - 1


def run_distance(a, b, limit):
    wa, wb = WORDS[a], WORDS[b]
    rd, rl = ref_distance(wa, wb), ref_lev(wa, wb)
    try:
        if LV.levenshtein(wa, wb) != rl:
            return "levenshtein(%r, %r) = %r, reference %r" % (wa, wb, LV.levenshtein(wa, wb), rl)
        if LV.damerau_levenshtein(wa, wb) != rd or LV.distance(wa, wb) != rd:
            return "damerau_levenshtein(%r, %r) = %r, reference %r" % (wa, wb, LV.damerau_levenshtein(wa, wb), rd)
        for fn, ref, name in ((LV.levenshtein, rl, "levenshtein"), (LV.damerau_levenshtein, rd, "damerau_levenshtein")):
            got = fn(wa, wb, limit=limit)
            if (got <= limit) != (ref <= limit):
                return "%s(%r, %r, limit=%d) = %r but the distance is %r" % (name, wa, wb, limit, got, ref)
            if ref <= limit and got != ref:
                return "%s(%r, %r, limit=%d) = %r, distance %r" % (name, wa, wb, limit, got, ref)
    except Exception as e:  # noqa
        return "distance(%r, %r) raised %s: %s" % (wa, wb, type(e).__name__, e)
    return None


NWB = len([w for w in WORDS if len(w) <= 3])      # second word: up to length 3 in both tiers


def _mk_distance(lim):
    name = "c19_distance_limit%d" % lim

    @h(bounds="levenshtein / damerau_levenshtein (= distance) for every ordered pair (word up to length %d, word up to length 3) over {a,b,c} incl. the empty "
              "word, unlimited and with limit %d, vs an independent definition" % (MAXLEN, lim),
       funcs=["whoosh.support.levenshtein.levenshtein", "whoosh.support.levenshtein.damerau_levenshtein"],
       examples=[dict(a=5, b=9), dict(a=0, b=3)], timeout=dict(quick=900, thorough=3000), outside="longer words, larger alphabets")
    def harness(a: int, b: int) -> Optional[str]:
        """
        pre: 0 <= a < NW and 0 <= b < NWB
        post: _ is None
        """
        with notrace():
            r = run_distance(pick(a, NW), pick(b, NWB), lim)
        tick(True)
        return r
    harness.__name__ = harness.__qualname__ = name
    return name, harness


for _lim in range(4):
    _n, _f = _mk_distance(_lim)
    globals()[_n] = _f


def run_within(wi, d, p, allow_known_off=False):
    word = WORDS[wi]
    res = {}
    for nseg, (s, docs) in searchers().items():
        # Known finding KF-C19-3: a single segment answers through a plain Levenshtein automaton (an adjacent
        # transposition costs 2), a multi-segment reader through the documented Damerau-Levenshtein distance.
        dist = ref_lev if (nseg == 1 and not allow_known_off) else ref_distance
        want = sorted(w for w in LEXICON if dist(word, w) <= d and w.startswith(word[:p]))
        where = "word %r maxdist %d prefix %d on %d segment(s)" % (word, d, p, nseg)
        try:
            got = sorted(set(s.reader().terms_within("f", word, d, prefix=p)))
        except Exception as e:  # noqa
            return "terms_within %s raised %s: %s" % (where, type(e).__name__, e)
        res[nseg] = got
        if got != want:
            return "terms_within %s = %r, the terms within the documented distance are %r" % (where, got, want)
        # FuzzyTerm matches exactly the documents containing such terms
        if word and d <= 2:
            try:
                hits = sorted(hit["k"] for hit in s.search(query.FuzzyTerm("f", word, maxdist=d, prefixlength=p), limit=None))
            except Exception as e:  # noqa
                return "FuzzyTerm %s raised %s: %s" % (where, type(e).__name__, e)
            # (FuzzyTerm expands per segment through the Levenshtein automaton on every layout: KF-C19-3)
            fdist = ref_distance if allow_known_off else ref_lev
            fwant = [w for w in LEXICON if fdist(word, w) <= d and w.startswith(word[:p])]
            wd = sorted(k for k, text in docs.items() if text.split()[0] in fwant)
            if hits != wd:
                return "FuzzyTerm %s matches %r, documents containing a term within distance: %r" % (where, hits, wd)
        # suggestions: existing terms within maxdist, never the word itself, closest first then most frequent
        try:
            sugs = s.suggest("f", word, limit=20, maxdist=d, prefix=p)
        except Exception as e:  # noqa
            return "suggest %s raised %s: %s" % (where, type(e).__name__, e)
        # Known findings (both pinned by tests/test_spelling.py::test_reader_corrector): KF-C19-1 the queried word
        # itself is suggested when it is a term; KF-C19-2 the ranking ignores the distance (score uses maxdist),
        # i.e. it is by descending total frequency only.  Everything else is asserted exactly.
        cands = list(want) if not allow_known_off else [w for w in want if w != word]
        freq = dict((w, sum(pat)) for w, pat in LEXICON.items())
        if sorted(sugs) != sorted(cands):
            return "suggest %s = %r, candidates are %r" % (where, sugs, cands)
        if allow_known_off:
            keys = [(ref_distance(word, w), -freq[w]) for w in sugs]
        else:
            keys = [-freq[w] for w in sugs]
        if keys != sorted(keys):
            return "suggest %s = %r not ordered by %s: %r" % (where, sugs, "(distance, -frequency)" if allow_known_off else "-frequency", keys)
    return None


@h(bounds="terms_within / FuzzyTerm / suggest for every query word up to length %d over {a,b,c} (present, absent, empty, shorter than the prefix), maxdist 0..3, "
          "prefix 0..2, on a 10-word confusable lexicon (incl. transpositions, multi-byte letters, repeated terms) in one and in three segments" % MAXLEN,
   funcs=["whoosh.reading.IndexReader.terms_within", "whoosh.reading.SegmentReader.terms_within", "whoosh.automata.lev.levenshtein_automaton",
          "whoosh.automata.fsa.NFA.to_dfa", "whoosh.automata.fsa.find_all_matches", "whoosh.codec.base.Automata.terms_within", "whoosh.query.terms.FuzzyTerm",
          "whoosh.spelling.ReaderCorrector", "whoosh.spelling.MultiCorrector", "whoosh.searching.Searcher.suggest"],
   examples=[dict(w=5, d=1, p=0), dict(w=0, d=2, p=1)], timeout=dict(quick=900, thorough=3000),
   outside="words longer than %d, alphabets larger than 3 (+ one accented letter in the lexicon), maxdist > 3" % MAXLEN)
def c19_within(w: int, d: int, p: int) -> Optional[str]:
    """
    pre: 0 <= w < NW and 0 <= d <= 3 and 0 <= p <= 2
    post: _ is None
    """
    with notrace():
        r = run_within(pick(w, NW), pick(d, 4), pick(p, 3))
    tick(True)
    return r


def _kf(name, kfid, fn):
    @h(bounds="witness of known finding %s (concrete)" % kfid, funcs=["whoosh.spelling.ReaderCorrector", "whoosh.reading.SegmentReader.terms_within"],
       examples=[], timeout=dict(quick=60, thorough=60))
    def w(k: int) -> Optional[str]:
        """
        pre: k == 0
        post: _ is None
        """
        with notrace():
            r = fn()
        tick(True)
        return None if r is None else "%s witness: %s" % (kfid, r)
    w.__name__ = w.__qualname__ = name
    return w


def _kf_self():
    s, _ = searchers()[1]
    sugs = s.suggest("f", u"ab", maxdist=1)
    return None if u"ab" not in sugs else "suggest('ab') contains the word itself: %r" % (sugs,)


def _kf_rank():
    s, _ = searchers()[3]
    sugs = s.suggest("f", u"abc", limit=20, maxdist=2)
    keys = [ref_distance(u"abc", w) for w in sugs if w != u"abc"]
    return None if keys == sorted(keys) else "suggest('abc', maxdist=2) = %r is not ordered by distance first: %r" % (sugs, keys)


def _kf_transposition():
    s1, _ = searchers()[1]
    got = sorted(s1.reader().terms_within("f", u"ab", 1))
    return None if u"ba" in got else "single-segment terms_within('ab', 1) = %r lacks 'ba' (Damerau-Levenshtein distance 1)" % (got,)


c19_kf_self = _kf("c19_kf_self", "KF-C19-1", _kf_self)
c19_kf_rank = _kf("c19_kf_rank", "KF-C19-2", _kf_rank)
c19_kf_transposition = _kf("c19_kf_transposition", "KF-C19-3", _kf_transposition)
