"""C02-H1: commit/cancel atomicity under a crash at a symbolic storage-operation boundary (E1).

Data is concrete; the crash point k (and the prefix kept of files still open) is the symbolic input.
Each feasible value of k is one CrossHair path through the *real* writer, codec, TOC and storage code;
"Confirmed over all paths" means every crash point of the transaction was executed and recovered.
"""
import random
from typing import Optional

from vk.prelude import h, tick, tiered, concrete_arrays, notrace, sym_true
from vk.fixtures import (Crash, Ctl, OpFileStorage, OpRamStorage, restore, cleanup, dump, base_schema,
                         segment_files_ok)
from whoosh import fields, writing
from whoosh.filedb.filestore import RamStorage

concrete_arrays()


# ------------------------------------------------------------------ pre-state: 2 segments, one deletion
def _build_pre(gen_target=None):
    random.seed(0)
    st = RamStorage()
    ix = st.create_index(base_schema())
    w = ix.writer()
    w.add_document(k=u"a", t=u"alfa bravo", n=1)
    w.add_document(k=u"b", t=u"bravo charlie", n=2)
    w.commit()
    w = ix.writer()
    w.add_document(k=u"c", t=u"charlie delta alfa", n=3)
    w.add_document(k=u"d", t=u"delta", n=200)
    w.commit(merge=False)
    w = ix.writer()
    w.delete_by_term("k", u"b")
    w.commit(merge=False)
    assert len(ix._read_toc().segments) == 2
    while gen_target is not None and ix.latest_generation() < gen_target:
        # empty commits only advance the generation number
        ix.writer().commit(merge=False)
    return dict((k, bytes(v)) for k, v in st.files.items()), dump(ix)


class TxnError(Exception):
    pass


def t_add(ix, compound):
    w = ix.writer(compound=compound)
    w.add_document(k=u"e", t=u"echo alfa", n=5)
    w.commit()


def t_add_delete(ix, compound):
    w = ix.writer(compound=compound)
    w.add_document(k=u"e", t=u"echo alfa", n=5)
    w.delete_by_term("k", u"a")
    w.commit()


def t_update(ix, compound):
    w = ix.writer(compound=compound)
    w.update_document(k=u"c", t=u"charlie foxtrot", n=9)
    w.commit()


def t_delete_only(ix, compound):
    w = ix.writer(compound=compound)
    w.delete_by_term("k", u"d")
    w.commit()


def t_optimize(ix, compound):
    w = ix.writer(compound=compound)
    w.add_document(k=u"e", t=u"echo alfa", n=5)
    w.delete_by_term("k", u"a")
    w.commit(optimize=True)


def t_nomerge(ix, compound):
    w = ix.writer(compound=compound)
    w.add_document(k=u"e", t=u"echo alfa", n=5)
    w.commit(merge=False)


def t_clear(ix, compound):
    w = ix.writer(compound=compound)
    w.add_document(k=u"e", t=u"echo alfa", n=5)
    w.commit(mergetype=writing.CLEAR)


def t_addfield(ix, compound):
    w = ix.writer(compound=compound)
    w.add_field("x", fields.ID(stored=True))
    w.add_document(k=u"e", t=u"echo", n=5, x=u"xray")
    w.commit()


def t_removefield(ix, compound):
    w = ix.writer(compound=compound)
    w.remove_field("t")
    w.commit(optimize=True)


def t_cancel(ix, compound):
    w = ix.writer(compound=compound)
    w.add_document(k=u"e", t=u"echo alfa", n=5)
    w.delete_by_term("k", u"a")
    w.cancel()


def t_with_exc(ix, compound):
    try:
        with ix.writer(compound=compound) as w:
            w.add_document(k=u"e", t=u"echo alfa", n=5)
            w.delete_by_term("k", u"a")
            raise TxnError("boom")
    except TxnError:
        pass


TXNS = dict(add=t_add, add_delete=t_add_delete, update=t_update, delete_only=t_delete_only, optimize=t_optimize,
            nomerge=t_nomerge, clear=t_clear, addfield=t_addfield, removefield=t_removefield, cancel=t_cancel,
            with_exc=t_with_exc)

LATER = ["adds a document", "empty commit", "deletions only"]
PRE, OLD = _build_pre()
# the same content at generation 9, so that the transaction's commit writes generation 10 (two TOC files whose numbers
# differ in length coexist between the rename and clean_files)
PRE9, OLD9 = _build_pre(9)
assert OLD9 == OLD
_CACHE = {}
LASTCTL = None


def _uncrashed(txn, kind, compound, write_ticks=False, gen9=False):
    """Warm-up run without crash: the op count N_T, the op trace and the 'new' dump."""
    key = (txn, kind, compound, write_ticks, gen9)
    if key not in _CACHE:
        random.seed(1)
        tmp = []
        try:
            ctl = Ctl()
            ctl.write_ticks = write_ticks
            ctl.enabled = False
            st = restore(kind, PRE9 if gen9 else PRE, ctl, tmp)
            ix = st.open_index()
            ctl.enabled = True
            TXNS[txn](ix, compound)
            ctl.enabled = False
            new = dump(st.open_index())
            _CACHE[key] = (ctl.n, list(ctl.trace), new)
            st.release_all()
        finally:
            cleanup(tmp)
    return _CACHE[key]


def _strip(d, key):
    cnt, docs, lex = d
    docs2 = tuple(x for x in docs if ("k", repr(key)) not in x)
    lex2 = []
    for f, t, ps in lex:
        ps2 = tuple(p for p in ps if p[0] != key)
        if ps2:
            lex2.append((f, t, ps2))
    return (cnt - (len(docs) - len(docs2)), docs2, tuple(lex2))


def run_crash(txn, kind, compound, k, cut, write_ticks=False, later=0, gen9=False):
    ntx, trace, new = _uncrashed(txn, kind, compound, write_ticks, gen9)
    random.seed(1)
    tmp = []
    try:
        global LASTCTL
        ctl = Ctl(crash_at=k, cut=cut)
        LASTCTL = ctl
        ctl.write_ticks = write_ticks
        ctl.enabled = False
        st = restore(kind, PRE9 if gen9 else PRE, ctl, tmp)
        ix = st.open_index()
        ctl.enabled = True
        crashed = False
        try:
            TXNS[txn](ix, compound)
        except Crash:
            crashed = True
        ctl.enabled = False
        if ctl.trace != trace[:len(ctl.trace)]:
            return "operation trace depends on the run: %r vs %r" % (ctl.trace[-3:], trace[:len(ctl.trace)][-3:])
        snap = ctl.snapshot if crashed else st.snapshot(2)
        st.release_all()
        # only concrete copies of the symbolic inputs are used below (formatting/indexing with the
        # symbolic k would make CrossHair fork on digits and list positions)
        where = "k=%s cut=%s (%s)" % (ctl.crash_n, ctl.cut_taken, trace[ctl.crash_n - 1] if crashed else "no crash")
        if crashed != (ctl.crash_n is not None) or (not crashed and ctl.n != ntx):
            return "crash bookkeeping: crashed=%s at %s, N=%s, ran %s" % (crashed, ctl.crash_n, ntx, ctl.n)
        # ---- recovery on the snapshot, in a fresh storage of the same kind
        ctl2 = Ctl()
        ctl2.enabled = False
        rs = restore(kind, snap, ctl2, tmp)
        try:
            ix2 = rs.open_index()
            d = dump(ix2)
        except Exception as e:  # noqa
            import traceback, os
            tb = traceback.format_exc()[-1800:] if os.environ.get("VK_DEBUG") else ""
            return "re-opening the index failed after crash at %s: %s: %s %s" % (where, type(e).__name__, e, tb)
        if not crashed and d != new:
            return "uncrashed run differs from warm-up"
        if d != OLD and d != new:
            return "state after crash at %s is neither old nor new: %r" % (where, d[:2])
        # the later writer: adds a document / commits nothing / only deletes (the clean-up of orphans must not depend on it)
        try:
            w = ix2.writer(timeout=0)
            if later == 0:
                w.add_document(k=u"zz", n=7)
            elif later == 2:
                w.delete_by_term("k", u"d")
            w.commit()
        except Exception as e:  # noqa
            return "a later writer (%s) could not commit after crash at %s: %s: %s" % (LATER[later], where, type(e).__name__, e)
        d2 = dump(ix2)
        if later == 0:
            ok = _strip(d2, u"zz") == d and d2[0] == d[0] + 1
        elif later == 1:
            ok = d2 == d
        else:
            ok = d2 == _strip(d, u"d")
        if not ok:
            return "later commit (%s) lost or changed documents after crash at %s" % (LATER[later], where)
        problems = segment_files_ok(rs, ix2)
        if problems:
            return "after the next commit following crash at %s: %s" % (where, problems)
        rs.release_all()
        tick(crashed)
        return None
    finally:
        cleanup(tmp)


def _mk(txn, kind, compound, tiers, write_ticks=False, gen9=False):
    name = "c02_crash_%s%s_%s_%s%s" % ("gen10_" if gen9 else "", txn, kind, "cmp" if compound else "loose", "_w" if write_ticks else "")

    @h(bounds="transaction '%s' on %s storage, compound=%s: crash instead of storage operation k for every operation the transaction issues (k beyond the last = no crash; "
              "number of operations = paths/3 in the evidence); files open at the crash keep nothing/half/all of their bytes (cut); "
              "ticks at create/open/close/rename/delete/list/lock%s; the later writer %s%s" % (txn, kind, compound, " and before every write() to a created file" if write_ticks else "",
              "adds a document" if write_ticks else "adds a document / commits nothing / only deletes (symbolic)", "; pre-state at generation 9 (the commit writes generation 10)" if gen9 else ""),
       funcs=["whoosh.writing.SegmentWriter.commit", "whoosh.writing.SegmentWriter.cancel", "whoosh.index.TOC.write", "whoosh.index.TOC.read",
              "whoosh.index.clean_files", "whoosh.filedb.filestore.FileStorage" if kind == "file" else "whoosh.filedb.filestore.RamStorage",
              "whoosh.codec.whoosh3.W3Codec", "whoosh.filedb.compound.CompoundStorage"],
       examples=[dict(k=10000, cut=2, later=0), dict(k=7, cut=1, later=0)],
       outside="power loss with write re-ordering (no fsync), crashes inside one OS call, MpWriter sub-processes, Windows delete semantics",
       stubs=["OS process death = every later storage operation fails, open descriptors are closed; rename is atomic",
              "RamStorage files that are still open are materialised with the chosen prefix (at least as hostile as a directory)"],
       timeout=dict(quick=400, thorough=1500), path_timeout=dict(quick=60, thorough=120), tiers=tiers)
    def harness(k: int, cut: int, later: int) -> Optional[str]:
        """
        pre: 1 <= k <= 10000
        pre: 0 <= cut <= 2 and 0 <= later <= NLATER
        post: _ is None
        """
        with notrace():
            lv = 0
            if NLATER:
                lv = 0 if sym_true(lambda: later == 0) else (1 if sym_true(lambda: later == 1) else 2)
            return run_crash(txn, kind, compound, k, cut, write_ticks, lv, gen9)
    NLATER = 0 if write_ticks else 2       # the write-tick variants keep the adding later writer only
    harness.__name__ = harness.__qualname__ = name
    return name, harness


# Since the transaction itself runs natively (only the crash point is symbolic) a harness takes seconds:
# every transaction x storage x packing is in the quick tier; write-level ticks (a crash point before
# every write() to a created file, ~1000 paths each) are quick for two of them and thorough for all.
for _t in sorted(TXNS):
    for _kind in ("ram", "file"):
        for _c in (True, False):
            for _wt in (False, True):
                _q = (not _wt) or (_t, _kind, _c) in (("add_delete", "ram", True), ("optimize", "file", False))
                _n, _f = _mk(_t, _kind, _c, ("quick", "thorough") if _q else ("thorough",), _wt)
                globals()[_n] = _f

for _t in ("add", "optimize", "delete_only"):
    _n, _f = _mk(_t, "file", True, ("quick", "thorough"), False, True)
    globals()[_n] = _f
