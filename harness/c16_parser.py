"""C16: the query parser accepts any input and honours the documented language (E1: symbolic atom
codes; the real parser, plugins, field types and searcher run natively).

Totality: the input string is the concatenation of L atoms chosen by symbolic codes from a grammar-aware
alphabet (words, operators with and without their spaces, brackets, quotes, colons, carets, tildes,
field prefixes of every field type, range keywords, date-ish and numeric fragments, comparison signs,
escapes, non-ASCII).  Every parser configuration must return a query or raise QueryParserError, and
searching the result raises at most QueryError.

Meaning: well-formed expressions  [NOT] o1 c1 [NOT] o2 c2 [NOT] o3  (connectors implicit/AND/OR, optional
parentheses) over operands of every documented kind are generated from symbolic codes together with the
predicate of the documented reading (NOT > AND > OR > implicit group; ANDNOT/ANDMAYBE/REQUIRE
parenthesised); the parsed query must select exactly the documents the predicate selects."""
import datetime
import random
from typing import Optional

from vk.prelude import THOROUGH, h, tick, tiered, concrete_arrays, notrace, sym_true
from whoosh import fields, query, analysis, qparser
from whoosh.filedb.filestore import RamStorage
from whoosh.qparser import plugins as P
from whoosh.qparser.common import QueryParserError
from whoosh.qparser.dateparse import DateParserPlugin
from whoosh.query.qcore import QueryError

concrete_arrays()

# key, t, g, n, fl, d, b
DOCS = [
    (u"d0", u"alfa bravo charlie", u"x", 1, 0.5, datetime.datetime(2010, 1, 1), True),
    (u"d1", u"bravo alfa alfa", u"y", 7, -1.5, datetime.datetime(2011, 6, 15, 12), False),
    (u"d2", u"charlie", u"x", 8, 2.0, None, None),
    (u"d3", u"alto bravo", u"x y", 12, None, datetime.datetime(2012, 2, 29), True),
    (u"d4", u"alfa charlie bravo alfa", u"y", 200, 1e10, None, False),
    (u"d5", u"bravo bravo bravo", u"", None, None, None, None),
    (u"d6", u"alto", u"alfa", 255, 0.0, datetime.datetime(1999, 12, 31, 23, 59, 59), True),
    (u"d7", u"charlie alfa", u"x", 0, None, None, None),
    (u"d8", u"alfa w1 w2 w3 w4 w5 charlie and or not", u"z", 5, None, None, None),
]
GHOST = (u"gh", u"alfa bravo alto", u"x", 9, 1.0, datetime.datetime(2010, 1, 1), True)
_S = {}


def schema():
    return fields.Schema(k=fields.ID(stored=True, unique=True),
                         t=fields.TEXT(analyzer=analysis.StandardAnalyzer(stoplist=None, minsize=1), phrase=True),
                         g=fields.KEYWORD(scorable=True), n=fields.NUMERIC(int, bits=32, signed=True, sortable=True),
                         fl=fields.NUMERIC(float), d=fields.DATETIME(), b=fields.BOOLEAN(), ng=fields.NGRAMWORDS(minsize=2, maxsize=3),
                         pr=fields.NUMERIC(int, decimal_places=2))


def _add(w, d):
    kw = dict(k=d[0], t=d[1], g=d[2], ng=d[1])
    for name, v in zip(("n", "fl", "d", "b"), d[3:]):
        if v is not None:
            kw[name] = v
    w.add_document(**kw)


def searcher():
    if "s" not in _S:
        random.seed(23)
        ix = RamStorage().create_index(schema())
        w = ix.writer()
        for d in DOCS[:4]:
            _add(w, d)
        _add(w, GHOST)
        w.commit()
        w = ix.writer()
        for d in DOCS[4:]:
            _add(w, d)
        w.delete_by_term("k", u"gh")
        w.commit(merge=False)
        _S["ix"] = ix
        _S["s"] = ix.searcher()
    return _S["s"]


def pick(x, n):
    for v in range(n - 1):
        if sym_true(lambda: x == v):
            return v
    return n - 1


def all_plugins_parser(sch, copy=True):
    p = qparser.QueryParser("t", sch)
    p.add_plugin(P.PrefixPlugin())
    p.add_plugin(P.RegexPlugin())
    p.add_plugin(P.FuzzyTermPlugin())
    p.add_plugin(P.FunctionPlugin({"f": lambda qs, *a, **k: query.Or([q for q in qs if q is not None])}))
    p.add_plugin(P.SequencePlugin())
    p.add_plugin(P.PlusMinusPlugin())
    p.add_plugin(P.GtLtPlugin())
    p.add_plugin(P.FieldAliasPlugin({"t": ["text"]}))
    if copy:
        p.add_plugin(P.CopyFieldPlugin({"t": "g"}))
    p.add_plugin(P.PseudoFieldPlugin({"special": lambda node: node}))
    p.add_plugin(DateParserPlugin(basedate=datetime.datetime(2012, 1, 1)))
    return p


def parsers():
    if "p" not in _S:
        sch = schema()
        dp = qparser.QueryParser("d", sch)
        dp.add_plugin(DateParserPlugin(basedate=datetime.datetime(2012, 1, 1), free=True))
        _S["p"] = [
            ("default", qparser.QueryParser("t", sch)),
            ("OrGroup", qparser.QueryParser("t", sch, group=qparser.OrGroup)),
            ("OrGroup.factory", qparser.QueryParser("t", sch, group=qparser.OrGroup.factory(0.9))),
            ("Multifield", qparser.MultifieldParser(["t", "g", "n"], sch, fieldboosts={"t": 2.0})),
            ("Simple", qparser.SimpleParser("t", sch)),
            ("DisMax", qparser.DisMaxParser({"t": 1.0, "g": 0.5}, sch)),
            ("all plugins", all_plugins_parser(sch)),
            ("free dates on d", dp),
            ("no schema", qparser.QueryParser("t", None)),
            ("numeric default field", qparser.QueryParser("n", sch)),
        ]
    return _S["p"]


ATOMS = [u"alfa", u"bravo", u" ", u" AND ", u" OR ", u"NOT ", u" ANDNOT ", u" REQUIRE ", u"(", u")", u'"', u"'", u":", u"^", u"~",
         u"[", u"]", u"{", u" TO ", u"*", u"?", u"t:", u"n:", u"d:", u"b:", u"2", u"0000", u"pr:", u"-", u"<", u">=", u"~2", u"#f(", u"\\",
         u" ANDMAYBE ", u"}", u"fl:", u"ng:", u"zz:", u"+", u"^2", u"2011", u"é\U0001F600", u".", u"/", u"*:*", u"r\"", u"AND", u"OR", u"NOT", u"TO", u"jan", u",",
         u"^x", u"~/", u"text:", u"special:", u"<<", u">>", u"true", u"now"]
NA = len(ATOMS)
# the most structure-bearing atoms, used for the longer strings of the thorough tier
CORE = [0, 2, 3, 4, 5, 8, 9, 10, 12, 13, 14, 15, 18, 22]
NCORE = len(CORE)


def total(text):
    s = searcher()
    for pname, p in parsers():
        try:
            q = p.parse(text)
        except QueryParserError:
            continue
        except Exception as e:  # noqa
            import traceback
            return "%s parser: parse(%r) raised %s: %s | %s" % (pname, text, type(e).__name__, e, traceback.format_exc()[-260:].replace("\n", " "))
        if not isinstance(q, query.Query):
            return "%s parser: parse(%r) returned %r" % (pname, text, q)
        if pname == "no schema":
            continue
        try:
            s.search(q, limit=None)
        except QueryError:
            continue
        except Exception as e:  # noqa
            import traceback
            return "%s parser: searching parse(%r) = %r raised %s: %s | %s" % (pname, text, q, type(e).__name__, e, traceback.format_exc()[-260:].replace("\n", " "))
    return None


LQ = 3
NJ = 12
NAQ = tiered(34, 47)      # the quick tier draws from the first 34 atoms, the thorough tier from the first 47 (all 61 are swept concretely in development)


def _mk_total(j):
    lo, hi = j * NAQ // NJ, (j + 1) * NAQ // NJ
    name = "c16_total_%02d" % j

    @h(bounds="every string of %d atoms from a %d-atom grammar-aware alphabet (first atom %d..%d in this job): words, operators with/without spaces, brackets, quotes, "
              "colon, caret, tilde, range syntax, prefixes of TEXT/NUMERIC/DATETIME/BOOLEAN/float/NGRAM/unknown/alias/pseudo fields, digits, signs, comparisons, "
              "escapes, non-BMP text, function and regex openers; 10 parser configurations (default, OrGroup, OrGroup.factory, Multifield, Simple, DisMax, every optional "
              "plugin incl. DateParserPlugin, free dates, no schema, numeric default field); parse then search on a 2-segment index with a deletion" % (LQ, NAQ, lo, hi - 1),
       funcs=["whoosh.qparser.default.QueryParser.parse", "whoosh.qparser.default.QueryParser.tag", "whoosh.qparser.default.QueryParser.filterize",
              "whoosh.qparser.plugins.*", "whoosh.qparser.taggers.*", "whoosh.qparser.syntax.*", "whoosh.qparser.dateparse.DateParserPlugin",
              "whoosh.fields.*.parse_query", "whoosh.fields.*.parse_range", "whoosh.searching.Searcher.search"],
       examples=[dict(a=lo, b=3, c=9), dict(a=lo, b=16, c=20)], timeout=dict(quick=900, thorough=3000),
       outside="strings of more than %d atoms (thorough: 4 atoms over a 14-atom core alphabet), atoms outside the alphabet" % LQ)
    def harness(a: int, b: int, c: int) -> Optional[str]:
        """
        pre: lo <= a < hi and 0 <= b < NAQ and 0 <= c < NAQ
        post: _ is None
        """
        a0 = a - lo
        with notrace():
            text = ATOMS[pick(a0, hi - lo) + lo] + ATOMS[pick(b, NAQ)] + ATOMS[pick(c, NAQ)]
            r = total(text)
        tick(True)
        return r
    harness.__name__ = harness.__qualname__ = name
    return name, harness


for _j in range(NJ):
    _n, _f = _mk_total(_j)
    globals()[_n] = _f


def _mk_total4(j):
    name = "c16_total4_%02d" % j

    @h(bounds="every string of 4 atoms from the 14-atom core alphabet (word, space, AND/OR/NOT, parentheses, quote, colon, caret, tilde, bracket, TO, "
              "wildcard, t:/n:/d: prefixes, digit), first atom %r; 10 parser configurations; parse then search" % ATOMS[CORE[j]],
       funcs=["whoosh.qparser.default.QueryParser.parse", "whoosh.qparser.plugins.*", "whoosh.searching.Searcher.search"],
       examples=[dict(b=3, c=9, d=1)], timeout=dict(quick=900, thorough=3000), tiers=("thorough",),
       outside="strings of more than 4 atoms")
    def harness(b: int, c: int, d: int) -> Optional[str]:
        """
        pre: 0 <= b < NCORE and 0 <= c < NCORE and 0 <= d < NCORE
        post: _ is None
        """
        with notrace():
            text = ATOMS[CORE[j]] + ATOMS[CORE[pick(b, NCORE)]] + ATOMS[CORE[pick(c, NCORE)]] + ATOMS[CORE[pick(d, NCORE)]]
            r = total(text)
        tick(True)
        return r
    harness.__name__ = harness.__qualname__ = name
    return name, harness


if THOROUGH:
    for _j in range(NCORE):
        _n, _f = _mk_total4(_j)
        globals()[_n] = _f


# ------------------------------------------------------------------ meaning
def toks(d):
    return d[1].split()


def phrase(words, slop):
    def pred(d):
        ts = toks(d)

        def rec(wi, prev):
            if wi == len(words):
                return True
            return any(t == words[wi] and (prev is None or 0 < p - prev <= slop) and rec(wi + 1, p) for p, t in enumerate(ts))
        return rec(0, None)
    return pred


def W(w):
    """a bare word: in the default field (or in every field of a multifield parser)"""
    return lambda d, multi: w in toks(d) or (multi and w in d[2].split())


def F(pred):
    return lambda d, multi: pred(d)


# operand table: (text, predicate(doc, multifield?), depends on the implicit group?)
def operands(group_and):
    grp = (lambda a, b: a and b) if group_and else (lambda a, b: a or b)
    return [
        (u"alfa", W(u"alfa")), (u"bravo", W(u"bravo")), (u"charlie", W(u"charlie")), (u"zulu", W(u"zulu")),
        (u"t:alto", F(lambda d: u"alto" in toks(d))), (u"g:x", F(lambda d: u"x" in d[2].split())),
        (u"ALFA^2", lambda d, m: u"alfa" in toks(d) or (m and u"ALFA" in d[2].split())),      # (the KEYWORD field is case sensitive) (u"g:y^0.5", F(lambda d: u"y" in d[2].split())),
        (u'"alfa bravo"', F(phrase([u"alfa", u"bravo"], 1))), (u'"bravo alfa"~2', F(phrase([u"bravo", u"alfa"], 2))),
        (u'"alfa charlie"~10', F(phrase([u"alfa", u"charlie"], 10))), (u't:"alfa charlie"~6^2', F(phrase([u"alfa", u"charlie"], 6))),
        (u"n:[7 TO 12]", F(lambda d: d[3] is not None and 7 <= d[3] <= 12)), (u"n:{1 TO 200]", F(lambda d: d[3] is not None and 1 < d[3] <= 200)),
        (u"n:[8 TO]", F(lambda d: d[3] is not None and d[3] >= 8)), (u"n:[TO 5}", F(lambda d: d[3] is not None and d[3] < 5)),
        (u"n:12", F(lambda d: d[3] == 12)), (u"n:-3", F(lambda d: False)),
        (u"t:[alto TO bravo]", F(lambda d: any(u"alto" <= t <= u"bravo" for t in toks(d)))),
        (u"fl:[-2 TO 0.5]", F(lambda d: d[4] is not None and -2 <= d[4] <= 0.5)),
        (u"d:[2010 TO 2011]", F(lambda d: d[5] is not None and datetime.datetime(2010, 1, 1) <= d[5] < datetime.datetime(2012, 1, 1))),
        (u"d:201202", F(lambda d: d[5] is not None and (d[5].year, d[5].month) == (2012, 2))),
        (u"b:true", F(lambda d: d[6] is True)), (u"b:no", F(lambda d: d[6] is False)),
        (u"al*", lambda d, m: any(t.startswith(u"al") for t in toks(d)) or (m and any(t.startswith(u"al") for t in d[2].split()))),
        (u"t:b?avo", F(lambda d: u"bravo" in toks(d))), (u"t:*l?a", F(lambda d: any(len(t) >= 3 and t[-3] == u"l" and t[-1] == u"a" for t in toks(d)))),
        (u"*:*", F(lambda d: True)), (u"n:*", F(lambda d: d[3] is not None)),
        (u"t:(alfa bravo)", F(lambda d: grp(u"alfa" in toks(d), u"bravo" in toks(d)))),
        (u"t:(alfa OR alto)", F(lambda d: u"alfa" in toks(d) or u"alto" in toks(d))),
        (u"(alfa ANDNOT bravo)", lambda d, m: W(u"alfa")(d, m) and not W(u"bravo")(d, m)),
        (u"(bravo ANDMAYBE charlie)", W(u"bravo")), (u"(charlie REQUIRE g:x)", lambda d, m: W(u"charlie")(d, m) and u"x" in d[2].split()),
        (u"k:'d0'", F(lambda d: d[0] == u"d0")), (u"ng:rav", F(lambda d: any(u"rav" in t for t in toks(d)))),
        (u"(t:alto OR NOT g:x)", F(lambda d: u"alto" in toks(d) or u"x" not in d[2].split())),
        # a field group with a nested parenthesised group: the field applies to every unprefixed clause inside
        (u"g:(x (y OR z))", F(lambda d: grp(u"x" in d[2].split(), u"y" in d[2].split() or u"z" in d[2].split()))),
        (u"g:(NOT (x OR t:alto))", F(lambda d: not (u"x" in d[2].split() or u"alto" in toks(d)))),
        # two term ranges on the single-valued key field that touch at an indexed term, each excluding it: parse() normalizes, and
        # the merged range must still exclude d3 (seed C16-4)
        (u"k:[d1 TO d3}", F(lambda d: u"d1" <= d[0] < u"d3")), (u"k:{d3 TO d5]", F(lambda d: u"d3" < d[0] <= u"d5")),
    ]


NOPS = len(operands(True))
CONN = [u" ", u" AND ", u" OR "]
MEANING_PARSERS = [("default", True, False), ("OrGroup", False, False), ("all plugins", True, False), ("Multifield2", True, True)]


def meaning_parser(name):
    key = "mp-" + name
    if key not in _S:
        sch = schema()
        if name == "Multifield2":
            _S[key] = qparser.MultifieldParser(["t", "g"], sch)
        elif name == "all plugins":
            _S[key] = all_plugins_parser(sch, copy=False)      # (CopyFieldPlugin changes the meaning by design)
        else:
            _S[key] = dict(parsers())[name]
    return _S[key]


def build_expr(ops, nots, conns, paren, OPS):
    parts = []
    for i, o in enumerate(ops):
        parts.append((u"NOT " if nots[i] else u"") + OPS[o][0])
    if len(parts) == 2:
        return parts[0] + CONN[conns[0]] + parts[1]
    if paren == 1:
        return u"(" + parts[0] + CONN[conns[0]] + parts[1] + u")" + CONN[conns[1]] + parts[2]
    if paren == 2:
        return parts[0] + CONN[conns[0]] + u"(" + parts[1] + CONN[conns[1]] + parts[2] + u")"
    return parts[0] + CONN[conns[0]] + parts[1] + CONN[conns[1]] + parts[2]


def reading(vals, conns, paren, group_and):
    """documented reading of v0 c0 v1 c1 v2: AND binds tighter than OR, OR tighter than the implicit group"""
    grp = (lambda a, b: a and b) if group_and else (lambda a, b: a or b)
    fn = {0: grp, 1: lambda a, b: a and b, 2: lambda a, b: a or b}
    if len(vals) == 2:
        return fn[conns[0]](vals[0], vals[1])
    if paren == 1:
        return fn[conns[1]](fn[conns[0]](vals[0], vals[1]), vals[2])
    if paren == 2:
        return fn[conns[0]](vals[0], fn[conns[1]](vals[1], vals[2]))
    # tightness: AND(1) > OR(2) > implicit(0)
    tight = {1: 3, 2: 2, 0: 1}
    if tight[conns[0]] >= tight[conns[1]]:
        return fn[conns[1]](fn[conns[0]](vals[0], vals[1]), vals[2])
    return fn[conns[0]](vals[0], fn[conns[1]](vals[1], vals[2]))


def meaning(pi, ops, nots, conns, paren):
    pname, group_and, multi = MEANING_PARSERS[pi]
    OPS = operands(group_and)
    text = build_expr(ops, nots, conns, paren, OPS)
    if pname == "all plugins" and any(u"-" in OPS[o][0] for o in ops):
        return None      # PlusMinusPlugin gives '-' its own meaning
    if multi and any(OPS[o][0].startswith(u'"') for o in ops):
        return None      # a bare phrase is also sent to the KEYWORD field, which has no positions: QueryError by configuration
    if any(OPS[o][0] == u"n:*" for o in ops) and sum(1 for o in ops if OPS[o][0].startswith(u"n:")) > 1:
        return None      # known finding KF-C15-1 (And/Or of Every(field) with a query on the same field is rewritten to Every(field)); witnessed in C15
    s = searcher()
    p = meaning_parser(pname)
    try:
        q = p.parse(text)
        got = sorted(hit["k"] for hit in s.search(q, limit=None))
    except Exception as e:  # noqa
        import traceback
        return "%s parser: %r raised %s: %s | %s" % (pname, text, type(e).__name__, e, traceback.format_exc()[-260:].replace("\n", " "))
    want = []
    for d in DOCS:
        vals = []
        for i, o in enumerate(ops):
            v = bool(OPS[o][1](d, multi))
            vals.append((not v) if nots[i] else v)
        if reading(vals, conns, paren, group_and):
            want.append(d[0])
    if got != sorted(want):
        return "%s parser: %r parsed to %r selects %r, the documented reading selects %r" % (pname, text, q, got, sorted(want))
    return None


# operands used in second position of two-operand expressions (first position ranges over all), and in three-operand ones
SUB = [0, 1, 2, 4, 5, 6, 8, 9, 10, 12, 13, 14, 16, 18, 20, 22, 24, 27, 29, 31, 38, 39] if THOROUGH else [0, 1, 5, 8, 12, 24, 29, 31, 39]
NSUB = len(SUB)
TRI = [0, 1, 12, 8] if THOROUGH else [0, 1, 12]
NTRI = len(TRI)
MFUNCS = ["whoosh.qparser.default.QueryParser.parse", "whoosh.qparser.plugins.OperatorsPlugin", "whoosh.qparser.plugins.GroupPlugin",
          "whoosh.qparser.plugins.FieldsPlugin", "whoosh.qparser.plugins.PhrasePlugin", "whoosh.qparser.plugins.RangePlugin",
          "whoosh.qparser.plugins.BoostPlugin", "whoosh.qparser.plugins.WildcardPlugin", "whoosh.qparser.plugins.EveryPlugin",
          "whoosh.qparser.plugins.MultifieldPlugin", "whoosh.fields.NUMERIC.parse_range", "whoosh.fields.DATETIME.parse_range", "whoosh.fields.BOOLEAN.parse_query"]


def _mk_meaning2(pi):
    name = "c16_meaning2_" + "".join(ch if ch.isalnum() else "_" for ch in MEANING_PARSERS[pi][0]).lower()

    @h(bounds="%s parser: expressions [NOT] o1 c [NOT] o2 with o1 over %d operand kinds (words, field prefixes, boosts, phrases with slop incl. multi-digit, "
              "inclusive/exclusive/open numeric, text, float and date ranges, numeric/boolean/date terms, wildcards, *:*, field:*, field groups, parenthesised "
              "ANDNOT/ANDMAYBE/REQUIRE, single quotes, n-grams, nested NOT), o2 over %d, connector implicit/AND/OR, NOT flags; documents selected = documented "
              "reading on a 9-document 2-segment index with a deletion" % (MEANING_PARSERS[pi][0], NOPS, NSUB),
       funcs=MFUNCS, examples=[dict(o1=0, o2=1, nn=1, c1=1), dict(o1=12, o2=3, nn=2, c1=0)], timeout=dict(quick=900, thorough=3000),
       outside="operands outside the table, scoring")
    def harness(o1: int, o2: int, nn: int, c1: int) -> Optional[str]:
        """
        pre: 0 <= o1 < NOPS and 0 <= o2 < NSUB and 0 <= nn < 4 and 0 <= c1 < 3
        post: _ is None
        """
        with notrace():
            nb = pick(nn, 4)
            r = meaning(pi, [pick(o1, NOPS), SUB[pick(o2, NSUB)]], [bool(nb & 1), bool(nb & 2)], [pick(c1, 3)], 0)
        tick(True)
        return r
    harness.__name__ = harness.__qualname__ = name
    return name, harness


def _mk_meaning3(pi):
    name = "c16_meaning3_" + "".join(ch if ch.isalnum() else "_" for ch in MEANING_PARSERS[pi][0]).lower()

    @h(bounds="%s parser: expressions [NOT] o1 c1 [NOT] o2 c2 [NOT] o3 with each operand among %d kinds (word, word, numeric range%s), connectors implicit/AND/OR, "
              "NOT flags, parentheses none/left/right: the precedence NOT > AND > OR > implicit group and explicit grouping; documents selected = documented reading"
              % (MEANING_PARSERS[pi][0], NTRI, ", phrase" if THOROUGH else ""),
       funcs=MFUNCS, examples=[dict(o1=0, o2=1, o3=2, nn=1, c1=1, c2=2, pa=0), dict(o1=2, o2=0, o3=0, nn=4, c1=0, c2=1, pa=2)], timeout=dict(quick=900, thorough=3000),
       outside="expressions of more than 3 operands, scoring")
    def harness(o1: int, o2: int, o3: int, nn: int, c1: int, c2: int, pa: int) -> Optional[str]:
        """
        pre: 0 <= o1 < NTRI and 0 <= o2 < NTRI and 0 <= o3 < NTRI and 0 <= nn < 8 and 0 <= c1 < 3 and 0 <= c2 < 3 and 0 <= pa < 3
        post: _ is None
        """
        with notrace():
            nb = pick(nn, 8)
            r = meaning(pi, [TRI[pick(o1, NTRI)], TRI[pick(o2, NTRI)], TRI[pick(o3, NTRI)]], [bool(nb & 1), bool(nb & 2), bool(nb & 4)],
                        [pick(c1, 3), pick(c2, 3)], pick(pa, 3))
        tick(True)
        return r
    harness.__name__ = harness.__qualname__ = name
    return name, harness


for _pi in range(len(MEANING_PARSERS)):
    for _mk_ in (_mk_meaning2, _mk_meaning3):
        _n, _f = _mk_(_pi)
        globals()[_n] = _f
