"""C06/C01/C07 kernel: the global <-> (segment, local) document number arithmetic that makes a multi-segment index look like
one list of documents (E1, **data symbolic**: the segment sizes and the document number are solver variables; z3 decides every
comparison bisect makes).

For every list of 1..4 segment sizes (each 0..5, empty segments included) and every global document number below the total:
  * MultiReader (readers) and SegmentWriter (deletions) map it to the unique segment i with offset_i <= n < offset_i + size_i and to
    the local number n - offset_i;
  * MultiReader.stored_fields / is_deleted / doc_field_length delegate to exactly that sub-reader with that local number;
  * SegmentWriter.delete_document(n) marks exactly that (segment, local) pair and is_deleted(n) reads it back.
"""
from typing import List, Optional

from vk.prelude import h, tick, inrange
from whoosh.reading import MultiReader
from whoosh.writing import SegmentWriter

NS = 4
SMAX = 5


class StubReader(object):
    """a sub-reader that records which local document number it was asked about"""
    schema = None

    def __init__(self, idx, size):
        self.idx, self.size = idx, size
        self.asked = []

    def doc_count_all(self):
        return self.size

    def stored_fields(self, docnum):
        self.asked.append(("stored", docnum))
        return {"seg": self.idx, "local": docnum}

    def is_deleted(self, docnum):
        self.asked.append(("deleted", docnum))
        return False

    def doc_field_length(self, docnum, fieldname, default=0):
        self.asked.append(("length", docnum))
        return 7


class StubSegment(object):
    def __init__(self, size):
        self.size = size
        self.deleted = set()

    def doc_count_all(self):
        return self.size

    def delete_document(self, docnum, delete=True):
        if not (0 <= docnum < self.size):
            raise IndexError(docnum)
        if delete:
            self.deleted.add(docnum)
        else:
            self.deleted.discard(docnum)

    def is_deleted(self, docnum):
        return docnum in self.deleted


class StubWriter(object):
    """carries only what the real SegmentWriter methods below read"""
    def __init__(self, segments):
        self.segments = segments
        self.is_closed = False
        self._added = False
        self._tobedeleted = None


def expected(sizes, n):
    off = 0
    for i, sz in enumerate(sizes):
        if off <= n < off + sz:
            return i, n - off
        off += sz
    return None


EX = [dict(sizes=[2, 0, 3], n=2), dict(sizes=[1], n=0), dict(sizes=[0, 0, 1, 4], n=4)]


@h(bounds="1..%d segments of 0..%d documents each (symbolic sizes, empty segments included), symbolic global document number below the total" % (NS, SMAX),
   funcs=["whoosh.reading.MultiReader.__init__", "whoosh.reading.MultiReader._document_segment", "whoosh.reading.MultiReader._segment_and_docnum",
          "whoosh.reading.MultiReader.stored_fields", "whoosh.reading.MultiReader.is_deleted", "whoosh.reading.MultiReader.doc_field_length"],
   examples=EX, stubs=["sub-readers: objects that report a symbolic doc_count_all() and record the local number they are asked about"],
   outside="more than 4 segments; the sub-readers themselves (C10)", timeout=dict(quick=600, thorough=1800))
def c06_multireader_docmap(sizes: List[int], n: int) -> Optional[str]:
    """
    pre: 1 <= len(sizes) <= NS and inrange(sizes, 0, SMAX) and 0 <= n < sum(sizes)
    post: _ is None
    """
    readers = [StubReader(i, sz) for i, sz in enumerate(sizes)]
    mr = MultiReader(readers)
    want = expected(sizes, n)
    got = mr._segment_and_docnum(n)
    if tuple(got) != want:
        return "MultiReader._segment_and_docnum(%r) over sizes %r = %r, the document is %r" % (n, sizes, got, want)
    for name, call in (("stored", lambda: mr.stored_fields(n)), ("deleted", lambda: mr.is_deleted(n)), ("length", lambda: mr.doc_field_length(n, "f"))):
        for r in readers:
            r.asked = []
        call()
        asked = [(r.idx, a) for r in readers for a in r.asked]
        if asked != [(want[0], (name, want[1]))]:
            return "MultiReader.%s(%r) over sizes %r asked %r, expected segment %d local %d" % (name, n, sizes, asked, want[0], want[1])
    if mr.doc_count_all() != sum(sizes):
        return "MultiReader.doc_count_all() = %r over sizes %r" % (mr.doc_count_all(), sizes)
    tick(len(sizes) > 1)
    return None


@h(bounds="1..%d segments of 0..%d documents each (symbolic sizes), symbolic global document number below the total" % (NS, SMAX),
   funcs=["whoosh.writing.SegmentWriter._setup_doc_offsets", "whoosh.writing.SegmentWriter._document_segment", "whoosh.writing.SegmentWriter._segment_and_docnum",
          "whoosh.writing.SegmentWriter.delete_document", "whoosh.writing.SegmentWriter.is_deleted"],
   examples=EX, stubs=["segments: objects with a symbolic doc_count_all() and a set of deleted local numbers; the writer object carries only the attributes these methods read"],
   outside="more than 4 segments", timeout=dict(quick=600, thorough=1800))
def c06_writer_docmap(sizes: List[int], n: int) -> Optional[str]:
    """
    pre: 1 <= len(sizes) <= NS and inrange(sizes, 0, SMAX) and 0 <= n < sum(sizes)
    post: _ is None
    """
    segs = [StubSegment(sz) for sz in sizes]
    w = StubWriter(segs)
    SegmentWriter._setup_doc_offsets(w)
    w._document_segment = lambda d: SegmentWriter._document_segment(w, d)
    w._segment_and_docnum = lambda d: SegmentWriter._segment_and_docnum(w, d)
    w._check_state = lambda: None
    want = expected(sizes, n)
    seg, local = w._segment_and_docnum(n)
    if seg is not segs[want[0]] or local != want[1]:
        return "SegmentWriter._segment_and_docnum(%r) over sizes %r = (segment %r, %r), the document is %r" % (n, sizes, segs.index(seg), local, want)
    SegmentWriter.delete_document(w, n)
    marked = [(i, d) for i, s in enumerate(segs) for d in sorted(s.deleted)]
    if marked != [want]:
        return "SegmentWriter.delete_document(%r) over sizes %r marked %r, the document is %r" % (n, sizes, marked, want)
    if not SegmentWriter.is_deleted(w, n):
        return "SegmentWriter.is_deleted(%r) is False after delete_document" % (n,)
    tick(len(sizes) > 1)
    return None
