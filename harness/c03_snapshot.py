"""C03: readers are snapshots; new readers / refresh() see exactly the last commit (E1, symbolic
injection points).

Reader steps are injected *synchronously at a storage-operation boundary of the writer* (= a context
switch to a reader thread that runs one whole step).  The tick numbers k1 <= k2 (<= k3) at which the
reader opens, probes and refreshes are symbolic; the writer script and all data are concrete and run
natively, so each feasible (k1, k2[, k3]) is one solver path through the real code.
"""
import random
from typing import Optional

from vk.prelude import THOROUGH, h, tick, tiered, concrete_arrays, notrace, sym_true, concretize
from vk.fixtures import Ctl, restore, cleanup, dump_reader, base_schema
from whoosh import writing, query
from whoosh.filedb.filestore import RamStorage

concrete_arrays()
STRIDE = tiered(4, 1)


def _build_pre():
    random.seed(0)
    st = RamStorage()
    ix = st.create_index(base_schema())
    w = ix.writer()
    w.add_document(k=u"a", t=u"alfa bravo", n=1)
    w.add_document(k=u"b", t=u"bravo charlie", n=2)
    w.commit()
    w = ix.writer()
    w.add_document(k=u"c", t=u"charlie delta alfa", n=3)
    w.add_document(k=u"d", t=u"delta", n=200)
    w.commit(merge=False)
    w = ix.writer()
    w.delete_by_term("k", u"b")
    w.commit(merge=False)
    return dict((k, bytes(v)) for k, v in st.files.items()), ix.latest_generation()


PRE, PRE_GEN = _build_pre()


def script(ix, compound):
    """thorough: append; default (small-segment) merge; delete-only; optimize; CLEAR
    quick: append; delete-only; optimize (which merges everything); empty commit"""
    w = ix.writer(compound=compound)
    w.add_document(k=u"e", t=u"echo alfa", n=5)
    w.commit(merge=False)
    if THOROUGH:
        w = ix.writer(compound=compound)
        w.add_document(k=u"f", t=u"foxtrot bravo", n=6)
        w.commit()
    w = ix.writer(compound=compound)
    w.delete_by_term("k", u"a")
    w.commit(merge=False)
    w = ix.writer(compound=compound)
    w.add_document(k=u"g", t=u"golf", n=7)
    w.commit(optimize=True)
    # a commit that changes no segment: the generation advances and a refreshed reader reuses the segment reader as it is
    # (seed C03-4: the reused reader kept its old generation, so up_to_date() stayed False)
    w = ix.writer(compound=compound)
    w.commit(merge=False)
    if THOROUGH:
        w = ix.writer(compound=compound)
        w.add_document(k=u"h", t=u"hotel", n=8)
        w.commit(mergetype=writing.CLEAR)


def probe(s):
    """Every read API family on a searcher: stored fields, lexicon+postings, column-backed sort, query."""
    r = s.reader()
    d = dump_reader(r)
    srt = tuple(hit["k"] for hit in s.search(query.Every(), sortedby="n", limit=None))
    alfa = tuple(sorted(hit["k"] for hit in s.search(query.Term("t", u"alfa"), limit=None)))
    cr = r.column_reader("n")
    cols = tuple(sorted((r.stored_fields(i)["k"], cr[i]) for i in r.all_doc_ids()))
    return (d, srt, alfa, cols, r.doc_count_all() >= r.doc_count())


_CACHE = {}


def _warm(kind, compound, mmap):
    key = (kind, compound, mmap)
    if key not in _CACHE:
        random.seed(1)
        tmp = []
        try:
            ctl = Ctl()
            ctl.enabled = False
            st = restore(kind, PRE, ctl, tmp, supports_mmap=mmap)
            ix = st.open_index()
            states = {}

            def snap_state():
                with ix.searcher() as s:
                    states[s.reader().generation()] = probe(s)
            snap_state()
            ctl.enabled = True
            # record the expected probe per generation by probing after each commit (injected at the
            # first tick after a TOC rename) -- simpler: run the script commit by commit
            ctl.enabled = False
            # commit by commit with ticking to learn at which tick each generation becomes visible
            ctl.enabled = True
            visible = []   # tick number n such that operation n is the TOC rename

            orig_tick = ctl.tick

            def tick2(kind_, name):
                orig_tick(kind_, name)
                if kind_ == "rename" and ".toc" in name:
                    visible.append(ctl.n)
            ctl.tick = tick2
            # probe every generation: injected right after each rename via a list/lock tick is fragile;
            # instead re-run the script on a copy with a hook in the storage's rename_file
            orig_rename = st.rename_file

            def rename2(a, b, safe=False):
                r = orig_rename(a, b, safe=safe)
                was = ctl.enabled
                ctl.enabled = False
                try:
                    snap_state()
                finally:
                    ctl.enabled = was
                return r
            st.rename_file = rename2
            script(ix, compound)
            ctl.enabled = False
            _CACHE[key] = (ctl.n, visible, states)
            st.release_all()
        finally:
            cleanup(tmp)
    return _CACHE[key]


def nops(kind, compound, mmap):
    with notrace():
        return _warm(kind, compound, mmap)[0]


def run_hold(kind, compound, mmap, k1, k2, k3, warm=None):
    # loose segments open per-field column files lazily (known finding KF-C03-1): the reader is warmed
    # (every read API touched once) in the same step that opens it, unless warm=False
    if warm is None:
        warm = not compound
    ntx, visible, states = _warm(kind, compound, mmap)
    random.seed(1)
    tmp = []
    box = {"s": None, "err": None, "probed": False, "refreshed": False}
    try:
        ctl = Ctl()
        ctl.enabled = False
        st = restore(kind, PRE, ctl, tmp, supports_mmap=mmap)
        ix = st.open_index()

        def gen_visible_before(n):
            # operation number n has not executed yet: generations whose rename tick is < n are visible
            return PRE_GEN + len([v for v in visible if v < n])

        def do_open():
            try:
                box["s"] = ix.searcher()
                box["g_open"] = box["s"].reader().generation()
                want = gen_visible_before(ctl.n)
                if box["g_open"] != want:
                    box["err"] = "searcher opened before op %d is on generation %s, latest committed is %s" % (ctl.n, box["g_open"], want)
                elif warm and probe(box["s"]) != states[want]:
                    box["err"] = "searcher opened before op %d (gen %s) differs from that commit's state" % (ctl.n, want)
            except Exception as e:  # noqa
                box["err"] = "opening a searcher before op %d failed: %s: %s" % (ctl.n, type(e).__name__, e)

        def do_probe():
            s = box["s"]
            if s is None or box["err"]:
                return
            box["probed"] = True
            try:
                got = probe(s)
                utd = s.up_to_date()
            except Exception as e:  # noqa
                box["err"] = "held searcher (gen %s) failed at op %d: %s: %s" % (box["g_open"], ctl.n, type(e).__name__, e)
                return
            if got != states[box["g_open"]]:
                box["err"] = "held searcher (gen %s) changed its answers at op %d" % (box["g_open"], ctl.n)
            elif utd != (gen_visible_before(ctl.n) == box["g_open"]):
                box["err"] = "up_to_date()=%s at op %d: searcher gen %s, latest %s" % (utd, ctl.n, box["g_open"], gen_visible_before(ctl.n))

        def do_refresh():
            s = box["s"]
            if s is None or box["err"]:
                return
            box["refreshed"] = True
            try:
                s2 = s.refresh()
                g2 = s2.reader().generation()
                got = probe(s2)   # (also warms the refreshed reader)
                utd = s2.up_to_date()
            except Exception as e:  # noqa
                box["err"] = "refresh() at op %d failed: %s: %s" % (ctl.n, type(e).__name__, e)
                return
            want = gen_visible_before(ctl.n)
            if g2 != want:
                box["err"] = "refresh() at op %d gave generation %s, latest committed is %s" % (ctl.n, g2, want)
            elif got != states[want]:
                box["err"] = "refreshed searcher (gen %s) at op %d differs from that commit's state" % (g2, ctl.n)
            elif not utd:
                box["err"] = "refreshed searcher not up_to_date() at op %d" % ctl.n
            box["s"] = s2

        ctl.add_point(k1, do_open)
        ctl.add_point(k2, do_probe)
        if k3 is not None:
            ctl.add_point(k3, do_refresh)
        ctl.enabled = True
        script(ix, compound)
        ctl.enabled = False
        if ctl.n != ntx:
            return "writer op count changed: %s vs %s" % (ctl.n, ntx)
        # one more probe of the held searcher after the whole script (the last clean-up may be the very
        # last storage operation, after which no injection point exists)
        if box["s"] is not None and not box["err"] and not box["refreshed"]:
            ctl.n = ntx + 1
            do_probe()
            ctl.n = ntx
        # final: a fresh searcher sees exactly the last commit
        with ix.searcher() as s:
            if probe(s) != states[PRE_GEN + len(visible)]:
                box["err"] = box["err"] or "fresh searcher after the script differs from the last commit"
        if box["s"] is not None:
            try:
                box["s"].close()
            except Exception:  # noqa
                pass
        st.release_all()
        tick(box["probed"])
        return box["err"]
    finally:
        cleanup(tmp)


CONFIGS = [("ram", True, False), ("ram", False, False), ("file", True, True), ("file", True, False),
           ("file", False, True), ("file", False, False)]


def _mk(kind, compound, mmap, with_refresh):
    name = "c03_hold_%s_%s_%s%s" % (kind, "cmp" if compound else "loose", "mmap" if mmap else "nommap", "_refresh" if with_refresh else "")

    if with_refresh:
        @h(bounds="writer script (quick: append, delete-only, optimize, empty commit; thorough: append, small-merge, delete-only, optimize, CLEAR) on %s compound=%s mmap=%s; searcher opened before op k1, "
                  "probed and then refreshed+probed before op k3>=k1; every pair k1<=k3 over all storage operations of the script with (k3-k1) %% %d == 0 "
                  "(quick 4, thorough 1)" % (kind, compound, mmap, STRIDE),
           funcs=["whoosh.index.FileIndex.reader", "whoosh.index.FileIndex._reader", "whoosh.searching.Searcher.refresh", "whoosh.searching.Searcher.up_to_date",
                  "whoosh.reading.SegmentReader", "whoosh.writing.SegmentWriter.commit", "whoosh.index.clean_files"],
           examples=[dict(k1=3, k3=43), dict(k1=1, k3=1)],
           outside=">3 context switches, readers in other processes, NFS, Windows",
           stubs=["a reader step runs atomically at a writer's storage-operation boundary"],
           timeout=dict(quick=600, thorough=5000))
        def harness(k1: int, k3: int) -> Optional[str]:
            """
            pre: 1 <= k1 <= k3 <= 10000
            pre: (k3 - k1) % STRIDE == 0
            post: _ is None
            """
            with notrace():
                return run_hold(kind, compound, mmap, k1, k3, k3)
    else:
        @h(bounds="writer script (quick: append, delete-only, optimize, empty commit; thorough: append, small-merge, delete-only, optimize, CLEAR) on %s compound=%s mmap=%s; searcher opened before op k1 and "
                  "probed (all read APIs, up_to_date) before op k2, every pair k1<=k2 over all storage operations of the script with (k2-k1) %% %d == 0 "
                  "(quick 4, thorough 1)" % (kind, compound, mmap, STRIDE),
           funcs=["whoosh.index.FileIndex.reader", "whoosh.index.FileIndex._reader", "whoosh.searching.Searcher.up_to_date",
                  "whoosh.reading.SegmentReader", "whoosh.writing.SegmentWriter.commit", "whoosh.index.clean_files"],
           examples=[dict(k1=3, k2=40), dict(k1=1, k2=1)],
           outside=">2 context switches, readers in other processes, NFS, Windows",
           stubs=["a reader step runs atomically at a writer's storage-operation boundary"],
           timeout=dict(quick=600, thorough=5000))
        def harness(k1: int, k2: int) -> Optional[str]:
            """
            pre: 1 <= k1 <= k2 <= 10000
            pre: (k2 - k1) % STRIDE == 0
            post: _ is None
            """
            with notrace():
                return run_hold(kind, compound, mmap, k1, k2, None)
    harness.__name__ = harness.__qualname__ = name
    return name, harness


for _k, _c, _m in CONFIGS:
    for _r in (False, True):
        _n, _f = _mk(_k, _c, _m, _r)
        globals()[_n] = _f


@h(bounds="witness of known finding KF-C03-1: loose (compound=False) segment, searcher opened before op 19, first read of a column "
          "after an optimize commit deleted the segment's files (op 104); concrete replay",
   funcs=["whoosh.codec.whoosh3.W3PerDocReader._cached_reader", "whoosh.codec.whoosh3.W3PerDocReader.has_column"],
   examples=[], timeout=dict(quick=120, thorough=120))
def c03_kf_lazy_columns(k: int) -> Optional[str]:
    """
    pre: k == 1
    post: _ is None
    """
    with notrace():
        n = _warm("ram", False, False)[0]
        r = run_hold("ram", False, False, 19, n, None, warm=False)
    tick(True)
    return r
