"""C14: sorting, grouping, collapsing, filtering and paging are exact views of the results (E1 symbolic
specification codes; native search pipeline; python sorted()/set algebra on the corpus model as oracle)."""
import random
from typing import Optional

from vk.prelude import THOROUGH, h, tick, tiered, concrete_arrays, notrace, sym_true
from vk import corpus as C
from whoosh import fields, query, sorting
from whoosh.filedb.filestore import RamStorage
from whoosh.codec.whoosh3 import W3Codec
from whoosh.searching import ResultsPage

concrete_arrays()

# key, text, n (None = missing), tag (KEYWORD, several values), b (BOOLEAN)
DOCS = [
    (u"d0", u"alfa bravo", 5, u"x", True),
    (u"d1", u"bravo", None, u"y", False),
    (u"d2", u"alfa", 5, u"x y", None),
    (u"d3", u"charlie alfa", 1, u"", True),
    (u"d4", u"alfa alfa", 200, u"z", False),
    (u"d5", u"bravo alfa", None, u"x", None),
    (u"d6", u"alfa", 3, u"y", True),
    (u"d7", u"alfa bravo charlie", 5, u"y", False),      # third document with n = 5, in the last segment: collapse evictions of a kept document of a non-first segment
]
GHOST = (u"gg", u"alfa alfa alfa", 0, u"x", True)
# 'o': an order key that is not monotone in document order; among the three documents with n = 5 the last one (d7) lies strictly
# between the other two, so with collapse_limit=2 it must push out the worst kept document, not be compared with the best
ORD = {u"d0": u"b", u"d1": u"h", u"d2": u"g", u"d3": u"c", u"d4": u"a", u"d5": u"d", u"d6": u"f", u"d7": u"e", u"gg": u"z"}
_S = {}


def docs_of(layout):
    if layout == "nocol":
        return [(d[0], d[1], None, d[3], d[4]) for d in DOCS[:3]] + DOCS[3:]
    return DOCS


def schema(n_sortable=True):
    return fields.Schema(k=fields.ID(stored=True, unique=True, sortable=True), t=fields.TEXT(stored=True),
                         n=fields.NUMERIC(int, bits=16, signed=False, sortable=n_sortable, stored=True),
                         g=fields.KEYWORD(stored=True, sortable=False), b=fields.BOOLEAN(stored=True),
                         u=fields.ID(stored=True), o=fields.ID(stored=True, sortable=True))


def add(w, d):
    kw = dict(k=d[0], t=d[1], g=d[3], u=d[0][::-1], o=ORD[d[0]])
    if d[2] is not None:
        kw["n"] = d[2]
    if d[4] is not None:
        kw["b"] = d[4]
    w.add_document(**kw)


def build(name):
    random.seed(23)
    st = RamStorage()
    if name == "one":
        ix = st.create_index(schema())
        w = ix.writer(codec=W3Codec(blocklimit=2))
        for d in DOCS:
            add(w, d)
        w.commit()
    elif name == "del3":
        ix = st.create_index(schema())
        for part in (DOCS[:2], [GHOST] + DOCS[2:5], DOCS[5:]):
            w = ix.writer(codec=W3Codec(blocklimit=2))
            for d in part:
                add(w, d)
            w.commit(merge=False)
        w = ix.writer()
        w.delete_by_term("k", GHOST[0])
        w.commit(merge=False)
    elif name == "nocol":
        # the first segment is written before the sortable field 'n' is added to the schema: it has no
        # column (and no values) for it.  docs_of("nocol") is the model: the first three documents lack n.
        sch = schema()
        sch.remove("n")
        ix = st.create_index(sch)
        w = ix.writer(codec=W3Codec(blocklimit=2))
        for d in docs_of("nocol")[:3]:
            add(w, d)
        w.commit()
        w = ix.writer(codec=W3Codec(blocklimit=2))
        w.add_field("n", fields.NUMERIC(int, bits=16, signed=False, sortable=True, stored=True))
        for d in docs_of("nocol")[3:]:
            add(w, d)
        w.commit(merge=False)
    return ix


LAYOUTS = ["one", "del3", "nocol"]


def searchers():
    if not _S:
        for name in LAYOUTS:
            _S[name] = build(name).searcher()
    return _S


def pick(x, n):
    for v in range(n - 1):
        if sym_true(lambda: x == v):
            return v
    return n - 1


MAXN = 65535
BIGK = u"￿"


def nkey(d):
    return d[2] if d[2] is not None else MAXN     # missing numeric values sort as the column default (type maximum)


# sort specifications: (name, facet factory, python key function on DOCS tuples, reverse flag of the search)
SORTS = [
    ("k asc", lambda: "k", lambda d: d[0], False),
    ("k desc (reverse=True)", lambda: "k", lambda d: d[0], True),
    ("n asc", lambda: "n", nkey, False),
    ("n FieldFacet reverse", lambda: sorting.FieldFacet("n", reverse=True), lambda d: -nkey(d), False),
    ("n asc then k desc", lambda: sorting.MultiFacet([sorting.FieldFacet("n"), sorting.FieldFacet("k", reverse=True)]), None, False),
    ("u (posting-backed, no column)", lambda: "u", lambda d: d[0][::-1], False),
    ("stored field facet t", lambda: sorting.StoredFieldFacet("t"), lambda d: d[1], False),
    ("score", lambda: sorting.ScoreFacet(), None, False),
    ("n desc via MultiFacet(n reverse, k)", lambda: sorting.MultiFacet([sorting.FieldFacet("n", reverse=True), sorting.FieldFacet("k")]), None, False),
]
NSORT = len(SORTS)

QUERIES = [("every", lambda: query.Every(), lambda d: True),
           ("t:alfa", lambda: query.Term("t", u"alfa"), lambda d: u"alfa" in d[1].split()),
           ("t:bravo OR t:charlie", lambda: query.Or([query.Term("t", u"bravo"), query.Term("t", u"charlie")]), lambda d: bool(set(d[1].split()) & set([u"bravo", u"charlie"])))]
NQ = len(QUERIES)


def docorder(keys):
    order = [d[0] for d in DOCS]
    return sorted(keys, key=order.index)


def expected_sort(si, matched, docs=None):
    name = SORTS[si][0]
    ds = [d for d in (docs or DOCS) if d[0] in matched]
    if name == "n asc then k desc":
        ds.sort(key=lambda d: d[0], reverse=True)
        ds.sort(key=nkey)
        return [d[0] for d in ds]
    if name.startswith("n desc via MultiFacet"):
        ds.sort(key=lambda d: d[0])
        ds.sort(key=lambda d: -nkey(d))
        return [d[0] for d in ds]
    keyfn = SORTS[si][2]
    if SORTS[si][3]:
        # reverse=True on the search: descending by key; ties keep document order (stable sort reversed on key only)
        return [d[0] for d in sorted(ds, key=keyfn, reverse=True)]
    return [d[0] for d in sorted(ds, key=keyfn)]


def run_sort(si, qi, limit):
    qn, mkq, pred = QUERIES[qi]
    matched = [d[0] for d in DOCS if pred(d)]
    name, mk, keyfn, rev = SORTS[si]
    for lname, s in searchers().items():
        where = "sort %r of %s on layout %s limit=%s" % (name, qn, lname, limit)
        try:
            r = s.search(mkq(), sortedby=mk(), reverse=rev, limit=limit)
            got = [hit["k"] for hit in r]
            total = len(r)
        except Exception as e:  # noqa
            return "%s raised %s: %s" % (where, type(e).__name__, e)
        if total != len(matched):
            return "%s: len(results) = %d, %d documents match" % (where, total, len(matched))
        if name == "score":
            full = [hit["k"] for hit in s.search(mkq(), limit=None)]
            want = full
        else:
            want = expected_sort(si, matched, docs_of(lname))
        want = want if limit is None else want[:limit]
        if got != want:
            return "%s: got %r, expected %r" % (where, got, want)
    return None


@h(bounds="%d sort specifications (column-backed, posting-backed, reversed, multi-key with mixed directions, stored-field, score) x 3 queries x limits "
          "{None,1,2,3,5} on a one-segment and a 3-segment layout with a deleted document; 7 documents with missing and duplicate sort values" % NSORT,
   funcs=["whoosh.sorting.FieldFacet", "whoosh.sorting.MultiFacet", "whoosh.sorting.StoredFieldFacet", "whoosh.sorting.ColumnCategorizer",
          "whoosh.sorting.PostingCategorizer", "whoosh.collectors.SortingCollector", "whoosh.searching.Searcher.search", "whoosh.reading.MultiReader.column_reader"],
   examples=[dict(si=2, qi=0, li=0), dict(si=4, qi=1, li=2)], timeout=dict(quick=600, thorough=1800),
   outside="more than 7 documents, date fields, segments lacking the column (see c14_nocol)")
def c14_sort(si: int, qi: int, li: int) -> Optional[str]:
    """
    pre: 0 <= si < NSORT and 0 <= qi < NQ and 0 <= li < 5
    post: _ is None
    """
    with notrace():
        r = run_sort(pick(si, NSORT), pick(qi, NQ), [None, 1, 2, 3, 5][pick(li, 5)])
    tick(True)
    return r


# ------------------------------------------------------------------ groups / collapse / filter / mask
def run_views(view, qi, p1, p2):
    qn, mkq, pred = QUERIES[qi]
    matched = docorder([d[0] for d in DOCS if pred(d)])
    for lname, s in searchers().items():
        byk = dict((d[0], d) for d in docs_of(lname))
        where = "%s of %s on layout %s (p1=%d, p2=%d)" % (view, qn, lname, p1, p2)
        try:
            if view == "groups g (overlapping)":
                r = s.search(mkq(), groupedby=sorting.FieldFacet("g", allow_overlap=True), limit=None)
                groups = r.groups("g")
                got = dict((k, sorted(C.keys_of(s, v))) for k, v in groups.items())
                want = {}
                for k in matched:
                    vals = byk[k][3].split() or [None]
                    for v in vals:
                        want.setdefault(v, []).append(k)
                want = dict((k, sorted(v)) for k, v in want.items())
                if got != want:
                    return "%s: groups %r, expected %r" % (where, got, want)
            elif view == "groups n":
                r = s.search(mkq(), groupedby="n", limit=None)
                got = dict((k, sorted(C.keys_of(s, v))) for k, v in r.groups("n").items())
                want = {}
                for k in matched:
                    want.setdefault(byk[k][2] if byk[k][2] is not None else None, []).append(k)
                got2 = dict((None if k in (None, MAXN) else k, v) for k, v in got.items())
                if got2 != dict((k, sorted(v)) for k, v in want.items()):
                    return "%s: groups %r, expected %r" % (where, got, want)
            elif view == "groups query facet":
                qf = sorting.QueryFacet({"low": query.NumericRange("n", 0, 4), "five": query.Term("n", 5)})
                r = s.search(mkq(), groupedby={"q": qf}, limit=None)
                got = dict((k, sorted(C.keys_of(s, v))) for k, v in r.groups("q").items())
                want = {}
                for k in matched:
                    n = byk[k][2]
                    g = "low" if n is not None and n <= 4 else ("five" if n == 5 else None)
                    want.setdefault(g, []).append(k)
                if got != dict((k, sorted(v)) for k, v in want.items()):
                    return "%s: groups %r, expected %r" % (where, got, want)
            elif view == "groups range facet":
                rf = sorting.RangeFacet("n", 0, 10, 3)
                r = s.search(mkq(), groupedby={"r": rf}, limit=None)
                got = dict((k, sorted(C.keys_of(s, v))) for k, v in r.groups("r").items())
                want = {}
                for k in matched:
                    n = byk[k][2]
                    g = None
                    if n is not None and 0 <= n < 10:
                        lo = (n // 3) * 3
                        g = (lo, min(lo + 3, 10))
                    want.setdefault(g, []).append(k)
                if got != dict((k, sorted(v)) for k, v in want.items()):
                    return "%s: groups %r, expected %r" % (where, got, want)
            elif view == "collapse n":
                climit = p1 + 1
                base = [hit["k"] for hit in s.search(mkq(), sortedby="k", limit=None)]
                r = s.search(mkq(), sortedby="k", collapse="n", collapse_limit=climit, limit=None)
                got = [hit["k"] for hit in r]
                seen = {}
                want = []
                for k in base:
                    key = nkey(byk[k])       # documents without a value share the column default as their key
                    seen[key] = seen.get(key, 0) + 1
                    if seen[key] <= climit:
                        want.append(k)
                if got != want:
                    return "%s: collapse_limit=%d kept %r, expected %r (ranking %r)" % (where, climit, got, want, base)
            elif view == "collapse n scored":
                climit = p1 + 1
                base = [(hit["k"], hit.score) for hit in s.search(mkq(), limit=None)]
                r = s.search(mkq(), collapse="n", collapse_limit=climit, limit=None)
                got = [(hit["k"], hit.score) for hit in r]
                seen = {}
                want = []
                for k, sc in base:           # the ranking is best-first, so the first climit per key are the best
                    key = nkey(byk[k])
                    seen[key] = seen.get(key, 0) + 1
                    if seen[key] <= climit:
                        want.append((k, sc))
                if got != want:
                    return "%s: collapse_limit=%d kept %r, expected %r (ranking %r)" % (where, climit, got, want, base)
                # (len(results) of a collapsed search is known finding KF-C14-1 and is not asserted here)
                for lim in (1, 2, 3):
                    r2 = s.search(mkq(), collapse="n", collapse_limit=climit, limit=lim)
                    got2 = [(hit["k"], hit.score) for hit in r2]
                    if got2 != want[:lim]:
                        return "%s: collapse_limit=%d limit=%d gives %r, expected %r" % (where, climit, lim, got2, want[:lim])
            elif view == "collapse n ordered by k desc":
                climit = p1 + 1
                base = [hit["k"] for hit in s.search(mkq(), sortedby="k", limit=None)]
                r = s.search(mkq(), sortedby="k", collapse="n", collapse_limit=climit, collapse_order=sorting.FieldFacet("k", reverse=True), limit=None)
                got = [hit["k"] for hit in r]
                groups = {}
                for k in base:
                    groups.setdefault(nkey(byk[k]), []).append(k)
                keep = set()
                for key, ks in groups.items():
                    keep |= set(sorted(ks, reverse=True)[:climit])
                want = [k for k in base if k in keep]
                if got != want:
                    return "%s: collapse_limit=%d kept %r, expected %r" % (where, climit, got, want)
            elif view == "collapse n ordered by o":
                climit = p1 + 1
                base = [hit["k"] for hit in s.search(mkq(), sortedby="k", limit=None)]
                r = s.search(mkq(), sortedby="k", collapse="n", collapse_limit=climit, collapse_order=sorting.FieldFacet("o"), limit=None)
                got = [hit["k"] for hit in r]
                groups = {}
                for k in base:
                    groups.setdefault(nkey(byk[k]), []).append(k)
                keep = set()
                for key, ks in groups.items():
                    keep |= set(sorted(ks, key=lambda k_: ORD[k_])[:climit])
                want = [k for k in base if k in keep]
                if got != want:
                    return "%s: collapse_limit=%d kept %r, expected %r" % (where, climit, got, want)
            elif view.startswith("filter") or view.startswith("mask"):
                fq = [query.Term("g", u"x"), query.NumericRange("n", 1, 5), query.Term("t", u"bravo")][p1]
                fpred = [lambda d: u"x" in d[3].split(), lambda d: d[2] is not None and 1 <= d[2] <= 5, lambda d: u"bravo" in d[1].split()][p1]
                fset = set(d[0] for d in docs_of(lname) if fpred(d))
                kind = p2
                if kind == 0:
                    obj = fq
                elif kind == 1:
                    obj = s.search(fq, limit=None)
                else:
                    obj = set(s.docs_for_query(fq))
                base = [(hit["k"], hit.score) for hit in s.search(mkq(), limit=None)]
                if view.startswith("filter"):
                    r = s.search(mkq(), filter=obj, limit=None)
                    want = [x for x in base if x[0] in fset]
                else:
                    r = s.search(mkq(), mask=obj, limit=None)
                    want = [x for x in base if x[0] not in fset]
                got = [(hit["k"], hit.score) for hit in r]
                if got != want:
                    return "%s: got %r, expected the unfiltered ranking restricted: %r" % (where, got, want)
                if len(r) != len(want):
                    return "%s: len(results) = %d, expected %d" % (where, len(r), len(want))
                r1 = s.search(mkq(), limit=1, **({"filter": obj} if view.startswith("filter") else {"mask": obj}))
                if [(hit["k"], hit.score) for hit in r1] != want[:1] or len(r1) != len(want):
                    return "%s: limit=1 gives %r (len %d), expected %r (len %d)" % (where, [hit["k"] for hit in r1], len(r1), want[:1], len(want))
        except Exception as e:  # noqa
            import traceback
            return "%s raised %s: %s | %s" % (where, type(e).__name__, e, traceback.format_exc()[-250:].replace("\n", " "))
    return None


VIEWS = ["groups g (overlapping)", "groups n", "groups query facet", "groups range facet", "collapse n", "collapse n ordered by k desc",
         "filter", "mask", "collapse n scored", "collapse n ordered by o"]
NV = len(VIEWS)


@h(bounds="%d views (overlapping keyword facet, numeric facet, query facet, range facet, collapse with limit 1..3 with and without an order facet, "
          "filter and mask given as query / Results / docnum set over 3 filter queries) x 3 queries x 2 layouts" % NV,
   funcs=["whoosh.sorting.FieldFacet", "whoosh.sorting.QueryFacet", "whoosh.sorting.RangeFacet", "whoosh.collectors.FacetCollector",
          "whoosh.collectors.CollapseCollector", "whoosh.collectors.FilterCollector", "whoosh.searching.Searcher._filter_to_comb", "whoosh.searching.Results.groups"],
   examples=[dict(v=0, qi=0, p1=0, p2=0), dict(v=6, qi=1, p1=1, p2=2)], timeout=dict(quick=600, thorough=1800))
def c14_views(v: int, qi: int, p1: int, p2: int) -> Optional[str]:
    """
    pre: 0 <= v < NV and 0 <= qi < NQ and 0 <= p1 < 3 and 0 <= p2 < 3
    post: _ is None
    """
    with notrace():
        vi = pick(v, NV)
        r = run_views(VIEWS[vi], pick(qi, NQ), pick(p1, 3) if vi >= 4 else 0, pick(p2, 3) if vi in (6, 7) else 0)
    tick(True)
    return r


# ------------------------------------------------------------------ paging
class FakeResults(object):
    def __init__(self, n):
        self.items = list(range(n))

    def __len__(self):
        return len(self.items)

    def __getitem__(self, x):
        return self.items[x]

    def scored_length(self):
        return len(self.items)


def run_page(total, pagenum, pagelen):
    res = FakeResults(total)
    where = "ResultsPage(total=%d, pagenum=%d, pagelen=%d)" % (total, pagenum, pagelen)
    try:
        p = ResultsPage(res, pagenum, pagelen)
        items = list(p)
    except Exception as e:  # noqa
        return "%s raised %s: %s" % (where, type(e).__name__, e)
    pagecount = (total + pagelen - 1) // pagelen
    eff = min(max(pagecount, 1), pagenum)
    want = list(range(total))[(eff - 1) * pagelen:(eff - 1) * pagelen + pagelen]
    if items != want:
        return "%s: items %r, expected the slice %r" % (where, items, want)
    if p.pagecount != pagecount or p.total != total:
        return "%s: pagecount %r total %r" % (where, p.pagecount, p.total)
    if p.pagelen != len(want):
        return "%s: pagelen attribute %r, slice has %d items" % (where, p.pagelen, len(want))
    if p.offset != (eff - 1) * pagelen or p.offset < 0:
        return "%s: offset attribute %r, expected %r" % (where, p.offset, (eff - 1) * pagelen)
    if p.is_last_page() != (eff >= pagecount):
        return "%s: is_last_page() = %r" % (where, p.is_last_page())
    for i in range(len(want)):
        if p[i] != want[i]:
            return "%s: page[%d] = %r" % (where, i, p[i])
    return None


@h(bounds="ResultsPage over a result list of length 0..12, page number 1..6, page length 1..5: items, offset, pagelen, pagecount, is_last_page, indexing",
   funcs=["whoosh.searching.ResultsPage"], examples=[dict(total=7, pagenum=2, pagelen=3), dict(total=0, pagenum=1, pagelen=5)],
   stubs=["Results replaced by a list-backed stub with __len__/__getitem__"], timeout=dict(quick=300, thorough=600))
def c14_page(total: int, pagenum: int, pagelen: int) -> Optional[str]:
    """
    pre: 0 <= total <= 12 and 1 <= pagenum <= 6 and 1 <= pagelen <= 5
    post: _ is None
    """
    pn0, pl0 = pagenum - 1, pagelen - 1
    with notrace():
        r = run_page(pick(total, 13), pick(pn0, 6) + 1, pick(pl0, 5) + 1)
    tick(True)
    return r


@h(bounds="witness of known finding KF-C14-1 (concrete): len(results) of a scored search collapsed on n with collapse_limit=1", funcs=["whoosh.collectors.CollapseCollector"],
   examples=[], timeout=dict(quick=60, thorough=60))
def c14_kf_collapse_len(k: int) -> Optional[str]:
    """
    pre: k == 0
    post: _ is None
    """
    with notrace():
        s = searchers()["one"]
        r = s.search(query.Term("t", u"alfa"), collapse="n", collapse_limit=1, limit=None)
        hits = [hit["k"] for hit in r]
        res = None if len(r) == len(hits) else "KF-C14-1 witness: %d hits remain after collapsing but len(results) = %d" % (len(hits), len(r))
    tick(True)
    return res
