"""C12: quality bounds are true upper bounds on scores (E1 symbolic query/threshold codes over real
matchers and scorers; E3 z3 reals through the real bm25()).

For matchers compiled from real queries on real segments (posting blocks of 2) with the shipped
scorers: whenever supports_block_quality() holds, block_quality() >= score() of the current entry and
max_quality() >= every remaining score; skip_to_quality(q) never passes over an entry scoring more than
q; replace(q) never removes one.  q ranges over 0, a negative value, every distinct score of the list
(minus/plus epsilon) and a value above the maximum - chosen by a symbolic code."""
from typing import Optional

import z3

from vk.prelude import THOROUGH, h, tick, tiered, concrete_arrays, notrace, sym_true
from vk.smt import q as smtq
from vk import corpus as C
from whoosh import scoring, query

concrete_arrays()

LEAVES = C.leaves()
LSEL = [0, 1, 2, 3, 5, 6, 9, 11, 12, 14, 16, 18, 19] if THOROUGH else [0, 1, 2, 6, 9, 11, 12, 16, 18]
NSEL = len(LSEL)
EPS = 1e-9
_S = {}
_KEEP = []


def weightings():
    return [("BM25F", lambda: scoring.BM25F()), ("BM25F(B=1,t_B=0)", lambda: scoring.BM25F(B=1.0, K1=2.0, t_B=0.0)),
            ("TF_IDF", lambda: scoring.TF_IDF()), ("Frequency", lambda: scoring.Frequency())]


def contexts():
    """per-segment searchers (the collectors use per-segment matchers) of three layouts x weightings"""
    if not _S:
        for name in ("one", "del", "three"):
            ix = C.build_layout(name)
            for wn, mk in weightings():
                s = ix.searcher(weighting=mk())
                _KEEP.append(s)          # sub-searchers only hold a weak reference to their parent
                for i, (ss, off) in enumerate(s.leaf_searchers()):
                    _S["%s/seg%d/%s" % (name, i, wn)] = ss
    return _S


def pick(x, n):
    for v in range(n - 1):
        if sym_true(lambda: x == v):
            return v
    return n - 1


def items(m):
    out = []
    while m.is_active():
        out.append((m.id(), m.score()))
        m.next()
        if len(out) > 100:
            raise Exception("runaway matcher")
    return out


def thresholds(L):
    sc = sorted(set(s for _, s in L))
    ts = [0.0, -1.0]
    for s in sc:
        ts += [s - 1e-7, s, s + 1e-7]
    ts.append((sc[-1] if sc else 0.0) + 10.0)
    return ts


def check(q, desc, tcode):
    engaged = False
    for cname, s in contexts().items():
        try:
            L = items(q.matcher(s))
        except Exception as e:  # noqa
            return "%s on %s: stepping raised %s: %s" % (desc, cname, type(e).__name__, e), False
        if not L:
            continue
        m = q.matcher(s)
        sup = m.supports_block_quality()
        engaged = True
        # (1) bounds at every position reached by stepping
        i = 0
        while sup and m.is_active():
            sc = m.score()
            try:
                bq = m.block_quality()
                mq = m.max_quality()
            except Exception as e:  # noqa
                return "%s on %s: quality raised %s: %s at entry %d" % (desc, cname, type(e).__name__, e, i), True
            if bq < sc - EPS:
                return "%s on %s: block_quality() = %r < score() = %r at entry %r" % (desc, cname, bq, sc, L[i]), True
            rest = max(s_ for _, s_ in L[i:])
            if mq < rest - EPS:
                return "%s on %s: max_quality() = %r < remaining score %r at entry %r" % (desc, cname, mq, rest, L[i]), True
            m.next()
            i += 1
        ts = thresholds(L)
        t = ts[tcode % len(ts)]
        # (2) skip_to_quality(t) from every start position
        for start in (range(len(L)) if sup else ()):
            m = q.matcher(s)
            for _ in range(start):
                m.next()
            try:
                m.skip_to_quality(t)
            except Exception as e:  # noqa
                return "%s on %s: skip_to_quality(%r) from entry %d raised %s: %s" % (desc, cname, t, start, type(e).__name__, e), True
            rest = items(m)
            rest_ids = [d for d, _ in rest]
            # what is left is still a suffix of the original list (same documents, same scores): the cursor stays faithful
            tail = dict(L[start:])
            for d, sc in rest:
                if d not in tail:
                    return "%s on %s: after skip_to_quality(%r) from entry %d the matcher yields %r, which is not in the list %r" % (desc, cname, t, start, d, L), True
                # an entry that scores more than t keeps its score; one that does not may have lost a contribution that was skipped
                # (it cannot enter the top N either way), but can never score more than before
                if (tail[d] > t + EPS and abs(tail[d] - sc) > EPS * max(1.0, abs(sc))) or sc > tail[d] + EPS * max(1.0, abs(sc)):
                    return "%s on %s: after skip_to_quality(%r) from entry %d document %r scores %r, was %r" % (desc, cname, t, start, d, sc, tail[d]), True
            for d, sc in L[start:]:
                if sc > t + EPS and d not in rest_ids:
                    return "%s on %s: skip_to_quality(%r) from entry %d passed over %r (list %r, left %r)" % (desc, cname, t, start, (d, sc), L, rest_ids), True
        # (3) replace(t) from every start position keeps every entry scoring more than t and adds none - asserted whether or not the
        # matcher claims quality support: the collector calls replace(threshold) on every matcher (FX-C12-3: a negation handed the
        # threshold to the clause it negates)
        for start in range(len(L)):
            m = q.matcher(s)
            for _ in range(start):
                m.next()
            try:
                r = m.replace(t)
                rest = dict(items(r))
            except Exception as e:  # noqa
                return "%s on %s: replace(%r) at entry %d raised %s: %s" % (desc, cname, t, start, type(e).__name__, e), True
            tail_ids = set(d for d, _ in L[start:])
            for d in rest:
                if d not in tail_ids:
                    return "%s on %s: replace(%r) at entry %d yields document %r, which is not in the rest of the list %r" % (desc, cname, t, start, d, L[start:]), True
            for d, sc in L[start:]:
                if sc > t + EPS:
                    if d not in rest:
                        return "%s on %s: replace(%r) at entry %d removed %r (list %r)" % (desc, cname, t, start, (d, sc), L), True
                    if abs(rest[d] - sc) > EPS * max(1.0, abs(sc)):
                        return "%s on %s: replace(%r) changed the score of %r to %r" % (desc, cname, t, (d, sc), rest[d]), True
    return None, engaged


FUNCS = ["whoosh.scoring.BM25FScorer.max_quality", "whoosh.scoring.BM25FScorer.block_quality", "whoosh.scoring.TF_IDFScorer",
         "whoosh.scoring.WeightScorer", "whoosh.codec.whoosh3.W3LeafMatcher.block_quality", "whoosh.codec.whoosh3.W3LeafMatcher.skip_to_quality",
         "whoosh.matching.binary.*.block_quality", "whoosh.matching.binary.*.max_quality", "whoosh.matching.binary.*.skip_to_quality",
         "whoosh.matching.binary.*.replace", "whoosh.matching.wrappers.*", "whoosh.matching.combo.*"]
NT = tiered(8, 10)


def _mk(op):
    name = "c12_bounds_" + "".join(ch if ch.isalnum() else "_" for ch in C.OPS[op][0]).strip("_").lower()

    @h(bounds="matchers of %s(a, b), a, b over %d leaves, on every segment of 3 layouts x 4 weightings (BM25F default and B=1 with per-field B=0, "
              "TF_IDF, Frequency); bounds at every stepping position; skip_to_quality(t)/replace(t) from every start position, t chosen by a symbolic code "
              "among {0, -1, each distinct score -/+ 1e-7 and exactly, max+10}" % (C.OPS[op][0], NSEL),
       funcs=FUNCS, examples=[dict(a=0, b=1, t=3), dict(a=4, b=0, t=0)], timeout=dict(quick=900, thorough=3000),
       outside="PL2/DFree, boosts <= 0, float rounding below 1e-9, matchers over multi-segment readers (KF-C11-2)")
    def harness(a: int, b: int, t: int) -> Optional[str]:
        """
        pre: 0 <= a < NSEL and 0 <= b < NSEL and 0 <= t < NT
        post: _ is None
        """
        with notrace():
            la, lb = LEAVES[LSEL[pick(a, NSEL)]], LEAVES[LSEL[pick(b, NSEL)]]
            o = C.OPS[op]
            r = check(o[1](la[1](), lb[1]()), "%s(%s, %s)" % (o[0], la[0], lb[0]), pick(t, NT))
        if isinstance(r, tuple) and r[0] is None:
            tick(r[1])
            return None
        tick(True)
        return r[0] if isinstance(r, tuple) else r
    harness.__name__ = harness.__qualname__ = name
    return name, harness


# And(a, Not b), Or(Not a, b) and ConstScore(Or) never answer supports_block_quality() on this corpus (measured over all leaf pairs): for
# them only part (3) applies - replace(threshold), which the collector calls on every matcher, keeps what scores more and adds nothing.
for _op in range(len(C.OPS)):
    _n, _f = _mk(_op)
    globals()[_n] = _f


# ------------------------------------------------------------------ scorer monotonicity (E3)
def rp_bm25_bound(idf, w, l, maxw, minl, avgfl, B, K1):
    a = scoring.bm25(idf, w, l, avgfl, B, K1)
    b = scoring.bm25(idf, maxw, minl, avgfl, B, K1)
    if a > b + 1e-12:
        return "bm25(w=%r, len=%r) = %r exceeds the bound at (maxw=%r, minlen=%r) = %r" % (w, l, a, maxw, minl, b)
    return None


def _val(m, x):
    v = m.eval(x, model_completion=True)
    return float(v.numerator_as_long()) / float(v.denominator_as_long())


@smtq(bounds="all real idf>0, 0<w<=maxw, len>=minlen>=1, avgfl>0, 0<=B<=1, K1>=0: bm25(w, len) <= bm25(maxw, minlen) (what BM25FScorer.max_quality/"
             "block_quality rely on); TF_IDF and Frequency are linear in the weight",
      funcs=["whoosh.scoring.bm25", "whoosh.scoring.BM25FScorer.max_quality"], outside="float rounding; PL2/DFree (transcendental)")
def c12_bm25_bound(rep):
    import time
    idf, w, l, maxw, minl, avgfl, B, K1 = z3.Reals("idf w l maxw minl avgfl B K1")
    s = z3.Solver()
    s.set("timeout", 60000)
    s.add(idf > 0, w > 0, w <= maxw, minl >= 1, l >= minl, avgfl > 0, B >= 0, B <= 1, K1 >= 0)
    s.add(scoring.bm25(idf, w, l, avgfl, B, K1) > scoring.bm25(idf, maxw, minl, avgfl, B, K1))
    t0 = time.time()
    r = s.check()
    rep.queries += 1
    rep.solver_s += time.time() - t0
    if r == z3.unsat:
        rep.held("bm25(w, len) <= bm25(maxw, minlen)")
    elif r == z3.sat:
        m = s.model()
        rep.violation("bm25 bound", "rp_bm25_bound(%r, %r, %r, %r, %r, %r, %r, %r)" % tuple(_val(m, x) for x in (idf, w, l, maxw, minl, avgfl, B, K1)))
    else:
        rep.inconclusive("bm25 bound", "unknown")
    rep.sample({"function": "bm25", "obligation": "score bounded by (max weight, min length)"})


# ------------------------------------------------------------------ E2: the length byte (what block_min_length / min_length are stored as)
def rp_lengthbyte(a, b):
    """replay on the real functions: a <= b"""
    from whoosh.util.numeric import length_to_byte, byte_to_length
    la, lb = length_to_byte(a), length_to_byte(b)
    if not (0 <= la <= 255 and 0 <= lb <= 255):
        return "length_to_byte(%d) = %d, length_to_byte(%d) = %d: not a byte" % (a, la, b, lb)
    if a <= b and la > lb:
        return "length_to_byte is not monotone: %d -> %d but %d -> %d" % (a, la, b, lb)
    if a <= b and byte_to_length(la) > byte_to_length(lb):
        return "the stored length is not monotone: %d -> %d but %d -> %d" % (a, byte_to_length(la), b, byte_to_length(lb))
    if length_to_byte(byte_to_length(la)) != la:
        return "length_to_byte(byte_to_length(%d)) = %d" % (la, length_to_byte(byte_to_length(la)))
    if a < 106374 and byte_to_length(la) < a:
        return "stored length %d of %d is smaller than the length" % (byte_to_length(la), a)
    return None


@smtq(bounds="all field lengths 0 <= a <= b (unbounded mathematical integers, linear integer arithmetic); the 256-entry table read from the live module",
      funcs=["whoosh.util.numeric.length_to_byte", "whoosh.util.numeric.byte_to_length"],
      outside="negative lengths (never produced by the writer)",
      stubs=["bisect_left on the concrete table -> counting sum (pybmc builtin); byte_to_length (array.__getitem__) -> ite chain over the same table"])
def c12_lengthbyte(rep):
    """A block's (and a term's) minimum length is stored as length_to_byte(min of the lengths) while each document's length is stored
    as length_to_byte(its length); the quality bound score(max weight, stored min length) is an upper bound of score(weight, stored
    length) only if the byte encoding and its decoding are monotone - decided here for every pair of lengths."""
    from vk.pybmc import Engine, Unsupported
    from whoosh.util import numeric as N
    table = [int(x) for x in N._length_byte_cache]
    if len(table) != 256 or [N.byte_to_length(i) for i in range(256)] != table:
        rep.inconclusive("length byte", "byte_to_length is no longer the table lookup the encoding assumes")
        return
    for a_, b_ in [(0, 0), (0, 1), (10, 11), (11, 12), (106373, 106374), (106374, 2 ** 31 - 1), (5, 300), (254, 255)]:
        r = rp_lengthbyte(a_, b_)
        rep.queries += 1
        if r is not None:
            rep.violation("length byte vector", "rp_lengthbyte(%d, %d)" % (a_, b_), r)
            return
    eng = Engine(width=0, mode="fork", timeout_ms=60000)      # width 0: mathematical integers (Python int), linear arithmetic
    a = eng.sym_int("a")
    b = eng.sym_int("b")
    dom = [a >= 0]
    try:
        paths = list(eng.paths(N.length_to_byte, [a], pre=dom))
    except Unsupported as e:
        rep.inconclusive("length byte", "pybmc: %s" % e)
        return
    side = [o for _, o in eng.obligations]
    R = None
    for pc, r in reversed(paths):
        t = eng.to_term(r)
        R = t if R is None else z3.If(z3.And(*pc[len(dom):]) if len(pc) > len(dom) else z3.BoolVal(True), t, R)

    def enc(x):
        return z3.substitute(R, (a, x))

    def dec(k):
        out = eng.to_term(table[255])
        for i in range(254, -1, -1):
            out = z3.If(k == i, eng.to_term(table[i]), out)
        return out
    domab = dom + [b >= 0, a <= b]
    obligations = [
        ("0 <= length_to_byte(a) <= 255", dom, z3.Or(enc(a) < 0, enc(a) > 255)),
        ("length_to_byte monotone", domab, enc(a) > enc(b)),
        ("byte_to_length(length_to_byte(.)) monotone", domab, dec(enc(a)) > dec(enc(b))),
        ("length_to_byte(byte_to_length(length_to_byte(a))) == length_to_byte(a)", dom, enc(dec(enc(a))) != enc(a)),
        ("stored length >= length below the cap", dom + [a < 106374], dec(enc(a)) < a),
    ]
    if side:
        obligations.append(("no-overflow / bounds obligations of the encoding", dom, z3.Or(*side)))
    bad = 0
    for name, pre, neg in obligations:
        r = eng.check(*(list(pre) + [neg]))
        if r == z3.unsat:
            continue
        bad += 1
        if r == z3.sat:
            m = eng.last_model
            av = m.eval(a, model_completion=True).as_long()
            bv = m.eval(b, model_completion=True).as_long()
            rep.violation("length byte: " + name, "rp_lengthbyte(%d, %d)" % (av, max(av, bv)))
        else:
            rep.inconclusive("length byte: " + name, "unknown")
    # vacuity guard: strict monotonicity is false (the encoding is lossy), so its negation must be satisfiable
    r = eng.check(*(domab + [a < b, enc(a) == enc(b)]))
    if r != z3.sat:
        rep.inconclusive("length byte vacuity guard", "expected sat (two lengths sharing a byte), got %s" % r)
        bad += 1
    rep.absorb(eng)
    if not bad:
        rep.held("length_to_byte/byte_to_length: byte range, monotone encoding, monotone stored length, idempotence, stored >= real below the cap: "
                 "%d encoder paths, %d obligations" % (len(paths), len(obligations)))
    rep.sample({"function": "length_to_byte", "paths": len(paths), "obligations": len(obligations)})


# ------------------------------------------------------------------ E3: the real scorer objects on solver terms
class _StubTI(object):
    def __init__(self, maxw, minl):
        self.maxw, self.minl = maxw, minl

    def max_weight(self):
        return self.maxw

    def min_length(self):
        return self.minl


class _StubField(object):
    scorable = True


class _StubParent(object):
    def __init__(self, idf, avgfl):
        self._idf, self._avgfl = idf, avgfl

    def idf(self, fieldname, text):
        return self._idf

    def avg_field_length(self, fieldname):
        return self._avgfl


class _StubSearcher(object):
    def __init__(self, parent, ti, length):
        self.schema = {"t": _StubField()}
        self._parent, self._ti, self._len = parent, ti, length

    def get_parent(self):
        return self._parent

    def term_info(self, fieldname, text):
        return self._ti

    def doc_field_length(self, docid, fieldname, default=0):
        return self._len


class _StubMatcher(object):
    def __init__(self, w, bmw, bml):
        self._w, self._bmw, self._bml = w, bmw, bml

    def id(self):
        return 0

    def weight(self):
        return self._w

    def block_max_weight(self):
        return self._bmw

    def block_min_length(self):
        return self._bml

    def block_max_length(self):
        # (not used by the shipped scorers; any value not below the current length)
        return self._bml + 1000


_MODELS = [("BM25F", lambda B, K1, B2: scoring.BM25F(B=B, K1=K1)), ("BM25F(t_B)", lambda B, K1, B2: scoring.BM25F(B=B, K1=K1, t_B=B2)),
           ("TF_IDF", lambda B, K1, B2: scoring.TF_IDF()), ("Frequency", lambda B, K1, B2: scoring.Frequency())]


def _scorer_terms(mi, idf, avgfl, B, K1, B2, w, ln, bmw, bml, maxw, minl):
    parent = _StubParent(idf, avgfl)
    s = _StubSearcher(parent, _StubTI(maxw, minl), ln)
    sc = _MODELS[mi][1](B, K1, B2).scorer(s, "t", b"x")
    m = _StubMatcher(w, bmw, bml)
    return sc.supports_block_quality(), sc.score(m), sc.block_quality(m), sc.max_quality()


def rp_scorer_bounds(mi, idf, avgfl, B, K1, B2, w, ln, bmw, bml, maxw, minl):
    sup, score, bq, mq = _scorer_terms(mi, idf, avgfl, B, K1, B2, w, ln, bmw, bml, maxw, minl)
    if sup and not (score <= bq + 1e-9 and bq <= mq + 1e-9):
        return "%s scorer: score %r, block_quality %r, max_quality %r for weight %r <= %r <= %r, length %r >= %r >= %r" % (
            _MODELS[mi][0], score, bq, mq, w, bmw, maxw, ln, bml, minl)
    return None


@smtq(bounds="the scorer objects BM25F().scorer / BM25F(t_B=..).scorer / TF_IDF().scorer / Frequency().scorer built by the real weighting classes over a stub searcher "
             "whose statistics are z3 reals: all idf>0, avgfl>0, 0<=B,B2<=1, K1>=0, 0<w<=block max weight<=term max weight, length>=block min length>=term min length>=1",
      funcs=["whoosh.scoring.BM25F.scorer", "whoosh.scoring.BM25FScorer", "whoosh.scoring.WeightLengthScorer.setup", "whoosh.scoring.WeightLengthScorer.score",
             "whoosh.scoring.WeightLengthScorer.block_quality", "whoosh.scoring.TF_IDF.scorer", "whoosh.scoring.TF_IDFScorer", "whoosh.scoring.Frequency.scorer",
             "whoosh.scoring.WeightScorer"],
      outside="float rounding; PL2/DFree/ReverseWeighting (they report no quality support: checked); the statistics themselves (C10)",
      stubs=["searcher/parent searcher/term info/matcher: plain objects returning z3 reals (any values within the stated order constraints); "
             "'avg_field_length(..) or 1': the average is assumed non-zero"])
def c12_scorer_bounds(rep):
    """score(entry) <= block_quality() <= max_quality() for the scorer objects the shipped weighting models build, with every statistic a solver variable."""
    import time

    class _Truthy(z3.ArithRef):
        def __bool__(self):
            return True
        __nonzero__ = __bool__
    idf, avgfl, B, K1, B2, w, ln, bmw, bml, maxw, minl = z3.Reals("idf avgfl B K1 B2 w ln bmw bml maxw minl")
    avg_t = z3.Real("avgfl")
    avg_t.__class__ = _Truthy
    dom = [idf > 0, avgfl > 0, B >= 0, B <= 1, B2 >= 0, B2 <= 1, K1 >= 0, w > 0, w <= bmw, bmw <= maxw, minl >= 1, bml >= minl, ln >= bml]
    vs = (idf, avgfl, B, K1, B2, w, ln, bmw, bml, maxw, minl)
    bad = 0
    n = 0
    for mi, (mname, _) in enumerate(_MODELS):
        try:
            sup, score, bq, mq = _scorer_terms(mi, idf, avg_t, B, K1, B2, w, ln, bmw, bml, maxw, minl)
        except Exception as e:  # noqa
            rep.inconclusive("scorer bounds " + mname, "the scorer could not be evaluated on solver terms: %s: %s" % (type(e).__name__, e))
            bad += 1
            continue
        if sup is not True:
            rep.inconclusive("scorer bounds " + mname, "supports_block_quality() = %r: the antecedent of the property does not hold, nothing to decide" % (sup,))
            bad += 1
            continue
        for oname, neg in (("score <= block_quality", score > bq), ("block_quality <= max_quality", bq > mq)):
            s = z3.Solver()
            s.set("timeout", 60000)
            s.add(*dom)
            s.add(neg)
            t0 = time.time()
            r = s.check()
            rep.queries += 1
            rep.solver_s += time.time() - t0
            n += 1
            if r == z3.unsat:
                continue
            bad += 1
            if r == z3.sat:
                m = s.model()
                rep.violation("%s: %s" % (mname, oname), "rp_scorer_bounds(%d, %s)" % (mi, ", ".join(repr(_val(m, x)) for x in vs)))
            else:
                rep.inconclusive("%s: %s" % (mname, oname), "unknown")
    # vacuity guard: without the order constraint on the lengths the BM25F bound must fail
    sup, score, bq, mq = _scorer_terms(0, idf, avg_t, B, K1, B2, w, ln, bmw, bml, maxw, minl)
    s = z3.Solver()
    s.set("timeout", 60000)
    s.add(idf > 0, avgfl > 0, B > 0, B <= 1, K1 > 0, w > 0, w <= bmw, bmw <= maxw, minl >= 1, bml >= minl, ln >= 1, score > bq)
    r = s.check()
    rep.queries += 1
    if r != z3.sat:
        rep.inconclusive("scorer bounds vacuity guard", "expected sat when the entry may be shorter than the block minimum, got %s" % r)
        bad += 1
    # the models whose scores are not monotone must not claim support
    for mname, mk in (("PL2", lambda: scoring.PL2()), ("DFree", lambda: scoring.DFree()), ("Reverse(BM25F)", lambda: scoring.ReverseWeighting(scoring.BM25F()))):
        for cname, s_ in contexts().items():
            if not cname.endswith("/BM25F"):
                continue
            sc = mk().scorer(s_, "t", b"alfa")
            rep.queries += 1
            if sc.supports_block_quality():
                bad += 1
                rep.violation("%s claims quality support" % mname, "rp_claims(%r)" % mname, "its bounds are not upper bounds")
            break
    if not bad:
        rep.held("score <= block_quality <= max_quality for %d scorer classes built by the real weighting models (%d obligations); PL2/DFree/Reverse claim no support" % (len(_MODELS), n))
    rep.sample({"scorers": [m_[0] for m_ in _MODELS], "obligations": n})


def rp_claims(mname):
    mk = {"PL2": lambda: scoring.PL2(), "DFree": lambda: scoring.DFree(), "Reverse(BM25F)": lambda: scoring.ReverseWeighting(scoring.BM25F())}[mname]
    for cname, s_ in contexts().items():
        sc = mk().scorer(s_, "t", b"alfa")
        if sc.supports_block_quality():
            m = query.Term("t", u"alfa").matcher(s_)
            return "%s scorer claims quality support; max_quality %r, first score %r" % (mname, sc.max_quality(), sc.score(m))
        return None


# ------------------------------------------------------------------ E3: the real composite matcher classes over leaves whose scores and bounds are z3 reals
from whoosh.matching import mcore as _mcore
from whoosh.matching import binary as _binary
from whoosh.matching import wrappers as _wrappers


class _RealLeaf(_mcore.Matcher):
    """a posting list with concrete ids whose scores and quality bounds are solver terms; every entry is its own block (the most
    hostile layout the leaf contract allows): block_quality() is only known to bound the *current* entry, max_quality() every entry"""
    def __init__(self, name, ids, i=0):
        self.name, self.ids, self.i = name, list(ids), i
        self.s = [z3.Real("%s_s%d" % (name, k)) for k in range(len(ids))]
        self.bq = [z3.Real("%s_bq%d" % (name, k)) for k in range(len(ids))]
        self.mq = z3.Real("%s_mq" % name)

    def contract(self):
        cs = []
        for k in range(len(self.ids)):
            cs += [self.s[k] > 0, self.bq[k] >= self.s[k], self.mq >= self.bq[k]]
        return cs

    def is_active(self):
        return self.i < len(self.ids)

    def reset(self):
        self.i = 0

    def copy(self):
        c = _RealLeaf(self.name, self.ids, self.i)
        return c

    def id(self):
        return self.ids[self.i]

    def next(self):
        self.i += 1

    def skip_to(self, t):
        while self.i < len(self.ids) and self.ids[self.i] < t:
            self.i += 1

    def value(self):
        return b""

    def supports(self, astype):
        return False

    def value_as(self, astype):
        raise NotImplementedError

    def weight(self):
        return self.s[self.i]

    def score(self):
        return self.s[self.i]

    def supports_block_quality(self):
        return True

    def block_quality(self):
        if self.i >= len(self.ids):
            # asked on an exhausted list (DisjunctionMax does): real leaves answer with whatever their last block said - any value
            return z3.Real("%s_stale" % self.name) if not isinstance(self.mq, float) else 0.0
        return self.bq[self.i]

    def max_quality(self):
        return self.mq


def _zmax(*xs):
    if len(xs) == 1:
        xs = tuple(xs[0])
    out = xs[0]
    for x in xs[1:]:
        if isinstance(out, z3.ExprRef) or isinstance(x, z3.ExprRef):
            out = z3.If(out >= x, out, x)
        else:
            out = out if out >= x else x
    return out


def _z0(x):
    return 0 if x is None else x


_IDP = [[], [0], [1], [0, 1], [0, 2], [1, 2], [1, 3], [0, 1, 2]]
_KINDS = [
    ("Union", lambda a, b: _binary.UnionMatcher(a, b), lambda sa, sb: _z0(sa) + _z0(sb) if (sa is not None or sb is not None) else None),
    ("DisjunctionMax", lambda a, b: _binary.DisjunctionMaxMatcher(a, b),
     lambda sa, sb: None if sa is None and sb is None else sa if sb is None else sb if sa is None else z3.If(sa >= sb, sa, sb)),
    ("Intersection", lambda a, b: _binary.IntersectionMatcher(a, b), lambda sa, sb: sa + sb if sa is not None and sb is not None else None),
    ("Require", lambda a, b: _wrappers.RequireMatcher(a, b), lambda sa, sb: sa if sa is not None and sb is not None else None),
    ("AndNot", lambda a, b: _binary.AndNotMatcher(a, b), lambda sa, sb: sa if sa is not None and sb is None else None),
    ("AndMaybe", lambda a, b: _binary.AndMaybeMatcher(a, b), lambda sa, sb: None if sa is None else (sa + sb if sb is not None else sa)),
    ("Wrapping(boost 3)", lambda a, b: _wrappers.WrappingMatcher(_binary.UnionMatcher(a, b), boost=3.0),
     lambda sa, sb: (_z0(sa) + _z0(sb)) * 3.0 if (sa is not None or sb is not None) else None),
]


def rp_compose(kind, pa, pb):
    """concrete replay: the same construction with float scores 1.0, 2.0, ... and tight bounds"""
    return _compose_check(kind, pa, pb, concrete=True)


def _compose_check(ki, pa, pb, concrete=False, rep=None, nocontract=False):
    name, mk, comb = _KINDS[ki]
    a, b = _RealLeaf("a", _IDP[pa]), _RealLeaf("b", _IDP[pb])
    if concrete:
        for leaf, base in ((a, 1.0), (b, 1.5)):
            leaf.s = [base + k for k in range(len(leaf.ids))]
            leaf.bq = list(leaf.s)
            leaf.mq = max(leaf.s) if leaf.s else 0.0
    contract = [] if (concrete or nocontract) else a.contract() + b.contract()
    model = []
    for d in sorted(set(a.ids) | set(b.ids)):
        sa = a.s[a.ids.index(d)] if d in a.ids else None
        sb = b.s[b.ids.index(d)] if d in b.ids else None
        e = comb(sa, sb)
        if e is not None:
            model.append((d, e))
    saved = _binary.__dict__.get("max", None)
    saved_min = _binary.__dict__.get("min", None)
    _binary.max = _zmax
    _binary.min = lambda *xs: _zmax(*[0 - x for x in (xs[0] if len(xs) == 1 else xs)]) * -1
    try:
        m = mk(a, b)
        i = 0
        n = 0
        while m.is_active():
            if i >= len(model) or m.id() != model[i][0]:
                return "%s over a=%r b=%r: entry %d is document %r, the model list is %r" % (name, a.ids, b.ids, i, m.id(), [d for d, _ in model])
            sc = m.score()
            obligations = [("score() is the documented composition", sc != model[i][1])]
            if m.supports_block_quality():
                obligations.append(("block_quality() >= score()", m.block_quality() < sc))
                mq = m.max_quality()
                for d2, e2 in model[i:]:
                    obligations.append(("max_quality() >= score of remaining document %d" % d2, mq < e2))
            for oname, neg in obligations:
                n += 1
                if concrete:
                    if bool(neg):
                        return "%s over a=%r b=%r at document %r: %s fails" % (name, a.ids, b.ids, m.id(), oname)
                    continue
                s = z3.Solver()
                s.set("timeout", 20000)
                s.add(*contract)
                s.add(neg)
                r = s.check()
                if rep is not None:
                    rep.queries += 1
                if r == z3.sat:
                    return "SAT %s over a=%r b=%r at document %r: %s fails for %s" % (name, a.ids, b.ids, m.id(), oname, s.model())
                if r != z3.unsat:
                    return "UNKNOWN %s over a=%r b=%r at document %r: %s" % (name, a.ids, b.ids, m.id(), oname)
            m.next()
            i += 1
        if i != len(model):
            return "%s over a=%r b=%r: the matcher ends after %d entries, the model list is %r" % (name, a.ids, b.ids, i, [d for d, _ in model])
    finally:
        if saved is None:
            del _binary.max
        else:
            _binary.max = saved
        if saved_min is None:
            del _binary.min
        else:
            _binary.min = saved_min
    return None


@smtq(bounds="7 composite matcher classes x all pairs of 8 id patterns (<=3 ids each), every entry reached by stepping; leaf scores and bounds are z3 reals constrained "
             "only by the leaf contract (score>0, block bound >= current score, max bound >= every block bound; every entry its own block)",
      funcs=["whoosh.matching.binary.UnionMatcher", "whoosh.matching.binary.DisjunctionMaxMatcher", "whoosh.matching.binary.IntersectionMatcher",
             "whoosh.matching.wrappers.RequireMatcher", "whoosh.matching.binary.AndNotMatcher", "whoosh.matching.binary.AndMaybeMatcher",
             "whoosh.matching.wrappers.WrappingMatcher", "whoosh.matching.binary.AdditiveBiMatcher.block_quality", "whoosh.matching.binary.AdditiveBiMatcher.max_quality"],
      outside="skip_to_quality/replace with a symbolic threshold (their branches compare solver terms; decided with threshold codes on real segments by c12_bounds_*), float rounding",
      stubs=["leaves: a Matcher subclass with concrete ids and z3-real score/block_quality/max_quality", "builtins max/min inside whoosh.matching.binary -> z3 If (DisjunctionMax)"])
def c12_compose_bounds(rep):
    bad = 0
    n = 0
    for ki in range(len(_KINDS)):
        for pa in range(len(_IDP)):
            for pb in range(len(_IDP)):
                try:
                    r = _compose_check(ki, pa, pb, rep=rep)
                except Exception as e:  # noqa
                    r = "UNKNOWN %s over patterns %d,%d: raised %s: %s" % (_KINDS[ki][0], pa, pb, type(e).__name__, e)
                n += 1
                if r is None:
                    continue
                bad += 1
                if r.startswith("UNKNOWN"):
                    rep.inconclusive("compose bounds", r)
                else:
                    rep.violation("compose bounds", "rp_compose(%d, %d, %d)" % (ki, pa, pb), r[:300])
                if bad > 5:
                    return
    # vacuity guard: without the leaf contract the bound obligations must be refutable
    g = _compose_check(0, 3, 4, rep=rep, nocontract=True)
    if not (g or "").startswith("SAT"):
        rep.inconclusive("compose bounds vacuity guard", "expected a counterexample without the leaf contract, got %r" % (g,))
        bad += 1
    if not bad:
        rep.held("score = documented composition, block_quality >= score, max_quality >= remaining scores: %d (class, id pattern pair) constructions" % n)
    rep.sample({"classes": [k[0] for k in _KINDS], "constructions": n})
