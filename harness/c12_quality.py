"""C12: quality bounds are true upper bounds on scores (E1 symbolic query/threshold codes over real
matchers and scorers; E3 z3 reals through the real bm25()).

For matchers compiled from real queries on real segments (posting blocks of 2) with the shipped
scorers: whenever supports_block_quality() holds, block_quality() >= score() of the current entry and
max_quality() >= every remaining score; skip_to_quality(q) never passes over an entry scoring more than
q; replace(q) never removes one.  q ranges over 0, a negative value, every distinct score of the list
(minus/plus epsilon) and a value above the maximum - chosen by a symbolic code."""
from typing import Optional

import z3

from vk.prelude import THOROUGH, h, tick, tiered, concrete_arrays, notrace, sym_true
from vk.smt import q as smtq
from vk import corpus as C
from whoosh import scoring, query

concrete_arrays()

LEAVES = C.leaves()
LSEL = [0, 1, 2, 3, 5, 6, 9, 11, 12, 14, 16, 18, 19] if THOROUGH else [0, 1, 2, 6, 9, 11, 12, 16, 18]
NSEL = len(LSEL)
EPS = 1e-9
_S = {}
_KEEP = []


def weightings():
    return [("BM25F", lambda: scoring.BM25F()), ("BM25F(B=1,t_B=0)", lambda: scoring.BM25F(B=1.0, K1=2.0, t_B=0.0)),
            ("TF_IDF", lambda: scoring.TF_IDF()), ("Frequency", lambda: scoring.Frequency())]


def contexts():
    """per-segment searchers (the collectors use per-segment matchers) of three layouts x weightings"""
    if not _S:
        for name in ("one", "del", "three"):
            ix = C.build_layout(name)
            for wn, mk in weightings():
                s = ix.searcher(weighting=mk())
                _KEEP.append(s)          # sub-searchers only hold a weak reference to their parent
                for i, (ss, off) in enumerate(s.leaf_searchers()):
                    _S["%s/seg%d/%s" % (name, i, wn)] = ss
    return _S


def pick(x, n):
    for v in range(n - 1):
        if sym_true(lambda: x == v):
            return v
    return n - 1


def items(m):
    out = []
    while m.is_active():
        out.append((m.id(), m.score()))
        m.next()
        if len(out) > 100:
            raise Exception("runaway matcher")
    return out


def thresholds(L):
    sc = sorted(set(s for _, s in L))
    ts = [0.0, -1.0]
    for s in sc:
        ts += [s - 1e-7, s, s + 1e-7]
    ts.append((sc[-1] if sc else 0.0) + 10.0)
    return ts


def check(q, desc, tcode):
    engaged = False
    for cname, s in contexts().items():
        try:
            L = items(q.matcher(s))
        except Exception as e:  # noqa
            return "%s on %s: stepping raised %s: %s" % (desc, cname, type(e).__name__, e), False
        if not L:
            continue
        m = q.matcher(s)
        if not m.supports_block_quality():
            continue
        engaged = True
        # (1) bounds at every position reached by stepping
        i = 0
        while m.is_active():
            sc = m.score()
            try:
                bq = m.block_quality()
                mq = m.max_quality()
            except Exception as e:  # noqa
                return "%s on %s: quality raised %s: %s at entry %d" % (desc, cname, type(e).__name__, e, i), True
            if bq < sc - EPS:
                return "%s on %s: block_quality() = %r < score() = %r at entry %r" % (desc, cname, bq, sc, L[i]), True
            rest = max(s_ for _, s_ in L[i:])
            if mq < rest - EPS:
                return "%s on %s: max_quality() = %r < remaining score %r at entry %r" % (desc, cname, mq, rest, L[i]), True
            m.next()
            i += 1
        ts = thresholds(L)
        t = ts[tcode % len(ts)]
        # (2) skip_to_quality(t) from every start position
        for start in range(len(L)):
            m = q.matcher(s)
            for _ in range(start):
                m.next()
            try:
                m.skip_to_quality(t)
            except Exception as e:  # noqa
                return "%s on %s: skip_to_quality(%r) from entry %d raised %s: %s" % (desc, cname, t, start, type(e).__name__, e), True
            rest = items(m)
            rest_ids = [d for d, _ in rest]
            # what is left is still a suffix of the original list (same documents, same scores): the cursor stays faithful
            tail = dict(L[start:])
            for d, sc in rest:
                if d not in tail:
                    return "%s on %s: after skip_to_quality(%r) from entry %d the matcher yields %r, which is not in the list %r" % (desc, cname, t, start, d, L), True
                # an entry that scores more than t keeps its score; one that does not may have lost a contribution that was skipped
                # (it cannot enter the top N either way), but can never score more than before
                if (tail[d] > t + EPS and abs(tail[d] - sc) > EPS * max(1.0, abs(sc))) or sc > tail[d] + EPS * max(1.0, abs(sc)):
                    return "%s on %s: after skip_to_quality(%r) from entry %d document %r scores %r, was %r" % (desc, cname, t, start, d, sc, tail[d]), True
            for d, sc in L[start:]:
                if sc > t + EPS and d not in rest_ids:
                    return "%s on %s: skip_to_quality(%r) from entry %d passed over %r (list %r, left %r)" % (desc, cname, t, start, (d, sc), L, rest_ids), True
        # (3) replace(t) from every start position keeps every entry scoring more than t
        for start in range(len(L)):
            m = q.matcher(s)
            for _ in range(start):
                m.next()
            try:
                r = m.replace(t)
                rest = dict(items(r))
            except Exception as e:  # noqa
                return "%s on %s: replace(%r) at entry %d raised %s: %s" % (desc, cname, t, start, type(e).__name__, e), True
            for d, sc in L[start:]:
                if sc > t + EPS:
                    if d not in rest:
                        return "%s on %s: replace(%r) at entry %d removed %r (list %r)" % (desc, cname, t, start, (d, sc), L), True
                    if abs(rest[d] - sc) > EPS * max(1.0, abs(sc)):
                        return "%s on %s: replace(%r) changed the score of %r to %r" % (desc, cname, t, (d, sc), rest[d]), True
    return None, engaged


FUNCS = ["whoosh.scoring.BM25FScorer.max_quality", "whoosh.scoring.BM25FScorer.block_quality", "whoosh.scoring.TF_IDFScorer",
         "whoosh.scoring.WeightScorer", "whoosh.codec.whoosh3.W3LeafMatcher.block_quality", "whoosh.codec.whoosh3.W3LeafMatcher.skip_to_quality",
         "whoosh.matching.binary.*.block_quality", "whoosh.matching.binary.*.max_quality", "whoosh.matching.binary.*.skip_to_quality",
         "whoosh.matching.binary.*.replace", "whoosh.matching.wrappers.*", "whoosh.matching.combo.*"]
NT = tiered(8, 10)


def _mk(op):
    name = "c12_bounds_" + "".join(ch if ch.isalnum() else "_" for ch in C.OPS[op][0]).strip("_").lower()

    @h(bounds="matchers of %s(a, b), a, b over %d leaves, on every segment of 3 layouts x 4 weightings (BM25F default and B=1 with per-field B=0, "
              "TF_IDF, Frequency); bounds at every stepping position; skip_to_quality(t)/replace(t) from every start position, t chosen by a symbolic code "
              "among {0, -1, each distinct score -/+ 1e-7 and exactly, max+10}" % (C.OPS[op][0], NSEL),
       funcs=FUNCS, examples=[dict(a=0, b=1, t=3), dict(a=4, b=0, t=0)], timeout=dict(quick=900, thorough=3000),
       outside="PL2/DFree, boosts <= 0, float rounding below 1e-9, matchers over multi-segment readers (KF-C11-2)")
    def harness(a: int, b: int, t: int) -> Optional[str]:
        """
        pre: 0 <= a < NSEL and 0 <= b < NSEL and 0 <= t < NT
        post: _ is None
        """
        with notrace():
            la, lb = LEAVES[LSEL[pick(a, NSEL)]], LEAVES[LSEL[pick(b, NSEL)]]
            o = C.OPS[op]
            r = check(o[1](la[1](), lb[1]()), "%s(%s, %s)" % (o[0], la[0], lb[0]), pick(t, NT))
        if isinstance(r, tuple) and r[0] is None:
            tick(r[1])
            return None
        tick(True)
        return r[0] if isinstance(r, tuple) else r
    harness.__name__ = harness.__qualname__ = name
    return name, harness


# And(a, Not b), Or(Not a, b) and ConstScore(Or) never answer supports_block_quality() on this corpus (measured over all leaf pairs),
# so the property's antecedent never holds for them; they get no job.
for _op in range(len(C.OPS)):
    if C.OPS[_op][0] in (u"And(a, Not b)", u"Or(Not a, b)", u"ConstScore(Or)"):
        continue
    _n, _f = _mk(_op)
    globals()[_n] = _f


# ------------------------------------------------------------------ scorer monotonicity (E3)
def rp_bm25_bound(idf, w, l, maxw, minl, avgfl, B, K1):
    a = scoring.bm25(idf, w, l, avgfl, B, K1)
    b = scoring.bm25(idf, maxw, minl, avgfl, B, K1)
    if a > b + 1e-12:
        return "bm25(w=%r, len=%r) = %r exceeds the bound at (maxw=%r, minlen=%r) = %r" % (w, l, a, maxw, minl, b)
    return None


def _val(m, x):
    v = m.eval(x, model_completion=True)
    return float(v.numerator_as_long()) / float(v.denominator_as_long())


@smtq(bounds="all real idf>0, 0<w<=maxw, len>=minlen>=1, avgfl>0, 0<=B<=1, K1>=0: bm25(w, len) <= bm25(maxw, minlen) (what BM25FScorer.max_quality/"
             "block_quality rely on); TF_IDF and Frequency are linear in the weight",
      funcs=["whoosh.scoring.bm25", "whoosh.scoring.BM25FScorer.max_quality"], outside="float rounding; PL2/DFree (transcendental)")
def c12_bm25_bound(rep):
    import time
    idf, w, l, maxw, minl, avgfl, B, K1 = z3.Reals("idf w l maxw minl avgfl B K1")
    s = z3.Solver()
    s.set("timeout", 60000)
    s.add(idf > 0, w > 0, w <= maxw, minl >= 1, l >= minl, avgfl > 0, B >= 0, B <= 1, K1 >= 0)
    s.add(scoring.bm25(idf, w, l, avgfl, B, K1) > scoring.bm25(idf, maxw, minl, avgfl, B, K1))
    t0 = time.time()
    r = s.check()
    rep.queries += 1
    rep.solver_s += time.time() - t0
    if r == z3.unsat:
        rep.held("bm25(w, len) <= bm25(maxw, minlen)")
    elif r == z3.sat:
        m = s.model()
        rep.violation("bm25 bound", "rp_bm25_bound(%r, %r, %r, %r, %r, %r, %r, %r)" % tuple(_val(m, x) for x in (idf, w, l, maxw, minl, avgfl, B, K1)))
    else:
        rep.inconclusive("bm25 bound", "unknown")
    rep.sample({"function": "bm25", "obligation": "score bounded by (max weight, min length)"})
