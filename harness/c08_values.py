"""C08: stored values and column values come back unchanged for the right document (E1).

H2: every column type written and read back through the real writer/reader classes on a StructFile
    with a symbolic sparsity pattern (which documents supply a value), symbolic value codes, a symbolic
    document count and (VarBytes) offsets cut-off; RefBytes is driven across its 255/256 distinct-value
    switch with gaps.
H4: end-to-end: documents with symbolic subsets of stored / sortable / column fields of every value type
    on real indexes (compound on/off, RAM / file / copy_to_ram, merge), read back through stored_fields and
    column readers."""
import datetime
import io
import random
import shutil
import tempfile
from decimal import Decimal
from typing import Optional

from vk.prelude import THOROUGH, h, tick, tiered, concrete_arrays, notrace, sym_true
from whoosh import columns, fields, query
from whoosh.filedb.structfile import StructFile
from whoosh.filedb.filestore import RamStorage, FileStorage, copy_to_ram
from whoosh.compat import BytesIO

concrete_arrays()


def pick(x, n):
    for v in range(n - 1):
        if sym_true(lambda: x == v):
            return v
    return n - 1


BV = [b"", b"a", b"hello", b"\x00\xff" * 3, b"x" * 300]
FV = [b"aaaa", b"zzzz", b"\x00\x00\x00\x00", b"ab\xffd"]
NV = [0, 1, 255, 65535, 2 ** 31 - 1, -5, 2 ** 63 - 1]

# name, column factory, value table, default
COLS = [
    ("VarBytes", lambda c: columns.VarBytesColumn(), BV, b""),
    ("VarBytes(cutoff)", lambda c: columns.VarBytesColumn(write_offsets_cutoff=c), BV, b""),
    ("VarBytes(no offsets)", lambda c: columns.VarBytesColumn(allow_offsets=False), BV, b""),
    ("FixedBytes(4)", lambda c: columns.FixedBytesColumn(4), FV, b"\x00" * 4),
    ("FixedBytes(4, default)", lambda c: columns.FixedBytesColumn(4, default=b"dddd"), FV, b"dddd"),
    ("RefBytes", lambda c: columns.RefBytesColumn(), BV, b""),
    ("RefBytes(4)", lambda c: columns.RefBytesColumn(4), FV, b"\x00" * 4),
    ("Numeric(q)", lambda c: columns.NumericColumn("q", default=-1), NV, -1),
    ("Numeric(I)", lambda c: columns.NumericColumn("I", default=7), [0, 1, 255, 65535, 2 ** 31 - 1, 2 ** 32 - 1], 7),
    ("Numeric(d)", lambda c: columns.NumericColumn("d", default=0.0), [0.0, -0.0, 1.5, 1e300, float("inf")], 0.0),
    ("Bit", lambda c: columns.BitColumn(), [True, False], False),
    ("Bit(compress_at=1)", lambda c: columns.BitColumn(compress_at=1), [True, False], False),
    ("CompressedBytes", lambda c: columns.CompressedBytesColumn(), BV, b""),
    ("CompressedBlock(blocksize=1k)", lambda c: columns.CompressedBlockColumn(blocksize=1), BV, b""),
    ("Pickle(VarBytes)", lambda c: columns.PickleColumn(columns.VarBytesColumn()), [None, 0, u"\U0001F600", [1, 2], {"a": Decimal("1.5")}, (1, None)], None),
    ("VarBytesList", lambda c: columns.VarBytesListColumn(), [[], [b"a"], [b"a", b"", b"hello"], [b"x" * 300, b"y"]], []),
    ("FixedBytesList(2)", lambda c: columns.FixedBytesListColumn(2), [[], [b"ab"], [b"ab", b"cd", b"\x00\xff"]], []),
    ("Struct(ih)", lambda c: columns.StructColumn("ih", (0, 0)), [(1, 2), (-5, 7), (2 ** 31 - 1, -2 ** 15)], (0, 0)),
]
NC = len(COLS)
ND = 6        # documents 0..5 may supply a value; doccount up to 8


def roundtrip(ci, mask, vcodes, doccount, cutoff):
    name, mk, table, default = COLS[ci]
    col = mk(cutoff)
    f = StructFile(BytesIO())
    f.write(b"pad!")                     # non-zero base position
    w = col.writer(f)
    supplied = {}
    for d in range(ND):
        if (mask >> d) & 1:
            v = table[vcodes[d] % len(table)]
            w.add(d, v)
            supplied[d] = v
    w.finish(doccount)
    length = f.tell() - 4
    data = f.file.getvalue()
    f2 = StructFile(BytesIO(data))
    r = col.reader(f2, 4, length, doccount)
    where = "%s docs=%r doccount=%d cutoff=%d" % (name, supplied, doccount, cutoff)
    got_all = list(r)
    if len(got_all) != doccount:
        return "%s: reader iterates %d values for %d documents" % (where, len(got_all), doccount)
    for d in range(doccount):
        want = supplied.get(d, default)
        got = r[d]
        if name.startswith("Numeric(d)"):
            same = got == want      # a value equal to the default is elided by design, so -0.0 reads back as the default 0.0
        elif name.endswith("List") or "List(" in name:
            same = list(got) == list(want)
        else:
            same = got == want and type(got) == type(want) or (got == want and isinstance(want, (int, bool)))
        if not same:
            return "%s: reader[%d] = %r, supplied/default %r" % (where, d, got, want)
        if not (got_all[d] == got or (got != got and got_all[d] != got_all[d])):
            if not (name.endswith("List") or "List(" in name) or list(got_all[d]) != list(got):
                return "%s: iteration gives %r at %d but reader[%d] = %r" % (where, got_all[d], d, d, got)
    return None


def _vc(vc, i):
    from harness.c07_model import sym_true_idx
    return sym_true_idx(vc, i)


def _mk_col(ci):
    cname = "c08_col_" + "".join(ch if ch.isalnum() else "_" for ch in COLS[ci][0]).strip("_").lower()
    while "__" in cname:
        cname = cname.replace("__", "_")

    @h(bounds="column %s: documents 0..5 supply a value by a symbolic 6-bit mask, values from the type's table (empty, 300-byte, 0x00/0xff, range limits, "
              "floats incl. -0.0 and inf, non-BMP strings, Decimals, lists) by two symbolic codes (even/odd documents), document count 6..8%s; reader[d] and "
              "iteration = supplied value or the column default, at a non-zero base position" % (COLS[ci][0], ", offsets cut-off in {0, 2, 5, 400}" if ci == 1 else ""),
       funcs=["whoosh.columns.VarBytesColumn", "whoosh.columns.FixedBytesColumn", "whoosh.columns.RefBytesColumn", "whoosh.columns.NumericColumn",
              "whoosh.columns.BitColumn", "whoosh.columns.CompressedBytesColumn", "whoosh.columns.CompressedBlockColumn", "whoosh.columns.PickleColumn",
              "whoosh.columns.VarBytesListColumn", "whoosh.columns.FixedBytesListColumn", "whoosh.columns.StructColumn"],
       examples=[dict(mask=21, v1=1, v2=3, dc=7, co=1), dict(mask=63, v1=0, v2=2, dc=6, co=0)], timeout=dict(quick=900, thorough=3000),
       outside="more than 8 documents per column (except the RefBytes switch harness), offsets beyond 2^16, zlib/pickle themselves")
    def harness(mask: int, v1: int, v2: int, dc: int, co: int) -> Optional[str]:
        """
        pre: 0 <= mask < 64 and 0 <= v1 < NV_ and 0 <= v2 < NV_ and 6 <= dc <= 8 and 0 <= co < NCO
        post: _ is None
        """
        dc0 = dc - 6            # (arithmetic on symbolic values only while tracing)
        with notrace():
            m = pick(mask, 64)
            a, b = pick(v1, NV_), pick(v2, NV_)
            cov = pick(co, NCO)
            r = roundtrip(ci, m, [a, b, a + 1, b + 2, a + 3, b + 1], pick(dc0, 3) + 6, [0, 2, 5, 400][cov] if ci == 1 else 0)
        tick(m != 0)
        return r
    NCO = 4 if ci == 1 else 1
    NV_ = 4 if ci == 1 else NVC       # (the cut-off job already multiplies by 4 cut-offs)
    harness.__name__ = harness.__qualname__ = cname
    return cname, harness


NVC = tiered(4, 5)
for _ci in range(NC):
    _n, _f = _mk_col(_ci)
    globals()[_n] = _f



def refswitch(nuniq, gap_at, trailing):
    """RefBytesColumn across its 255/256 distinct-value switch, with a missing document at gap_at and trailing missing documents"""
    col = columns.RefBytesColumn()
    f = StructFile(BytesIO())
    w = col.writer(f)
    supplied = {}
    d = 0
    for i in range(nuniq):
        if d == gap_at:
            d += 1                   # this document supplies no value
        v = (u"v%03d" % i).encode("ascii")
        w.add(d, v)
        supplied[d] = v
        d += 1
    doccount = d + trailing
    w.finish(doccount)
    data = f.file.getvalue()
    r = col.reader(StructFile(BytesIO(data)), 0, len(data), doccount)
    for i in range(doccount):
        want = supplied.get(i, b"")
        try:
            got = r[i]
        except Exception as e:  # noqa
            return "RefBytes with %d distinct values, gap at %d, %d trailing: reader[%d] raised %s: %s" % (nuniq, gap_at, trailing, i, type(e).__name__, e)
        if got != want:
            return "RefBytes with %d distinct values, gap at %d, %d trailing: reader[%d] = %r, supplied/default %r" % (nuniq, gap_at, trailing, i, got, want)
    return None


@h(bounds="RefBytesColumn with 250..262 distinct values (the byte -> short reference switch at 256), one missing document at a symbolic position around "
          "the switch, 0..2 trailing missing documents",
   funcs=["whoosh.columns.RefBytesColumn.Writer", "whoosh.columns.RefBytesColumn.Reader"], examples=[dict(n=258, g=3, t=1), dict(n=255, g=0, t=0)],
   timeout=dict(quick=600, thorough=1200), outside="the 65 536-distinct-value limit")
def c08_refswitch(n: int, g: int, t: int) -> Optional[str]:
    """
    pre: 250 <= n <= 262 and 0 <= g < 8 and 0 <= t <= 2
    post: _ is None
    """
    n0 = n - 250
    with notrace():
        nn = pick(n0, 13) + 250
        gaps = [0, 100, 254, 255, 256, 257, 259, 10 ** 6]
        r = refswitch(nn, gaps[pick(g, 8)], pick(t, 3))
    tick(True)
    return r


# ------------------------------------------------------------------ H4: end to end
VALUES = {
    "s": [u"plain", u"non-BMP \U0001F600 text", u""],
    "o": [[1, u"two", None], Decimal("3.14"), datetime.datetime(2020, 2, 29, 23, 59, 59, 999999), b"\x00bytes\xff", {"k": (1, 2)}, 2 ** 70],
    "n": [0, -2147483648, 2147483647],
    "u": [0, 18446744073709551615],
    "fl": [1.5, -0.0, 1e-310],
    "dt": [datetime.datetime(1970, 1, 1), datetime.datetime(2038, 1, 19, 3, 14, 8, 1)],
    "bo": [True, False],
    "dec": [Decimal("1.25"), Decimal("-99.99")],
    "kw": [u"a b", u"z"],
}
FIELDS = ["s", "o", "n", "u", "fl", "dt", "bo", "dec", "kw", "t"]


def schema():
    return fields.Schema(
        k=fields.ID(stored=True, unique=True),
        s=fields.TEXT(stored=True, sortable=True),
        o=fields.STORED,
        n=fields.NUMERIC(int, bits=32, signed=True, stored=True, sortable=True),
        u=fields.NUMERIC(int, bits=64, signed=False, stored=True, sortable=True),
        fl=fields.NUMERIC(float, stored=True),
        dt=fields.DATETIME(stored=True, sortable=True),
        bo=fields.BOOLEAN(stored=True),
        dec=fields.NUMERIC(int, decimal_places=2, stored=True, sortable=True),
        kw=fields.KEYWORD(stored=True, sortable=True),
        t=fields.TEXT(stored=True))


def docvalues(i, mask, vsel):
    d = {"k": u"doc%d" % i}
    exp = {"k": u"doc%d" % i}
    for bit, fname in enumerate(FIELDS):
        if not (mask >> bit) & 1:
            continue
        if fname == "t":
            d["t"] = u"indexed text %d" % i
            d["_stored_t"] = u"override %d" % i      # the _stored_<field> override
            exp["t"] = u"override %d" % i
            continue
        table = VALUES[fname]
        v = table[(vsel + i + bit) % len(table)]
        d[fname] = v
        exp[fname] = v
    return d, exp


BAD = {"n": 2 ** 40, "u": -1, "dt": u"not a date", "dec": u"x.y"}      # inadmissible values: add_document raises, the caller carries on


def rejected_doc(failing):
    d = {"k": u"rejected", "s": u"rejected secret", "o": [u"leak"], "n": -5, "u": 77, "fl": 2.5, "dt": datetime.datetime(1999, 9, 9), "bo": True,
         "dec": Decimal("7.77"), "kw": u"rej leak", "t": u"rejected body", "_stored_t": u"rejected override"}
    d[failing] = BAD[failing]
    return d


def run_e2e(masks, vsel, config, reject=None):
    random.seed(31)
    storage_kind, compound, merge, to_ram = config
    tmp = []
    try:
        if storage_kind == "ram":
            st = RamStorage()
        else:
            dname = tempfile.mkdtemp(prefix="vkc08-")
            tmp.append(dname)
            st = FileStorage(dname, supports_mmap=(storage_kind == "mmap"))
        ix = st.create_index(schema())
        expected = {}
        for i, mask in enumerate(masks):
            w = ix.writer(compound=compound)
            d, exp = docvalues(i, mask, vsel)
            if reject is not None and reject[0] == i:
                # a document the library rejects half way, absorbed by the caller (tests/test_writing.py::test_add_fail_with_absorbed_exception
                # documents this use); the next document gets the same document number and must not inherit anything
                try:
                    w.add_document(**rejected_doc(reject[1]))
                    return "masks=%r: the inadmissible %s value was accepted" % (masks, reject[1])
                except Exception:  # noqa
                    pass
            w.add_document(**d)
            expected[exp["k"]] = exp
            w.commit(merge=False)
        if merge:
            w = ix.writer(compound=compound)
            w.commit(optimize=True)
        if to_ram and storage_kind != "ram":
            ix = copy_to_ram(st).open_index()
        where = "masks=%r vsel=%d config=%r" % (masks, vsel, config)
        with ix.searcher() as s:
            r = s.reader()
            seen = set()
            for docnum in r.all_doc_ids():
                sf = r.stored_fields(docnum)
                exp = expected[sf["k"]]
                seen.add(sf["k"])
                if set(sf) != set(exp):
                    return "%s: document %s has stored fields %r, supplied %r" % (where, sf["k"], sorted(sf), sorted(exp))
                for fname, v in exp.items():
                    got = sf[fname]
                    if fname == "fl":
                        import struct as _s
                        ok = _s.pack("d", got) == _s.pack("d", v)
                    else:
                        ok = got == v and type(got) == type(v)
                    if not ok:
                        return "%s: document %s field %s stored %r (%s), supplied %r (%s)" % (where, sf["k"], fname, got, type(got).__name__, v, type(v).__name__)
                # sortable columns return the value for this document, the default for documents that supplied none
                for fname in ("n", "u", "dt", "dec"):
                    if fname == "dt" and fname not in exp:
                        # Known finding KF-C08-1: the DATETIME column default (2^63-1 microseconds) is not a representable
                        # datetime, so the translating reader raises OverflowError; the untranslated value is asserted instead
                        raw = r.column_reader(fname, translate=False)[docnum]
                        if raw != r.schema[fname].column_type.default_value():
                            return "%s: document %s supplied no dt but its raw column value is %r" % (where, sf["k"], raw)
                        continue
                    cr = r.column_reader(fname)
                    got = cr[docnum]
                    if fname in exp:
                        want = exp[fname]
                        if got != want:
                            return "%s: document %s column %s = %r, supplied %r" % (where, sf["k"], fname, got, want)
                    else:
                        fobj = r.schema[fname]
                        if got != fobj.from_column_value(fobj.column_type.default_value()):
                            return "%s: document %s supplied no %s but its column value is %r" % (where, sf["k"], fname, got)
                hit = [h_ for h_ in s.search(query.Term("k", sf["k"]), limit=1)][0]
                for fname in exp:
                    if hit[fname] != sf[fname] and fname != "fl":
                        return "%s: Hit[%r] = %r differs from stored_fields %r" % (where, fname, hit[fname], sf[fname])
            if seen != set(expected):
                return "%s: documents read back %r, written %r" % (where, sorted(seen), sorted(expected))
            if reject is not None:
                for fname, text in (("k", u"rejected"), ("s", u"secret"), ("kw", u"leak"), ("t", u"body"), ("bo", True)):
                    q = query.Term(fname, text) if fname != "bo" else None
                    if q is not None:
                        got = [h_["k"] for h_ in s.search(q, limit=None)]
                        if got:
                            return "%s reject=%r: %r finds %r - a term of the rejected document" % (where, reject, q, got)
                if s.doc_count_all() != len(masks):
                    return "%s reject=%r: doc_count_all() = %d after %d accepted documents" % (where, reject, s.doc_count_all(), len(masks))
        return None
    except Exception as e:  # noqa
        import traceback
        return "masks=%r vsel=%d config=%r raised %s: %s | %s" % (masks, vsel, config, type(e).__name__, e, traceback.format_exc()[-300:].replace("\n", " "))
    finally:
        for d_ in tmp:
            shutil.rmtree(d_, ignore_errors=True)


CONFIGS = [("ram", True, False, False), ("ram", False, True, False), ("mmap", True, True, False), ("nommap", True, False, True),
           ("mmap", False, False, True), ("nommap", False, True, False)]
MASKS = [0, 1, 2, 4, 8, 16, 32, 64, 128, 256, 512, 1023, 341, 682, 7, 1016]
NM = len(MASKS)


@h(bounds="3 documents, each supplying a field subset chosen by a symbolic code from 16 subsets of {stored TEXT, STORED objects (list/Decimal/microsecond "
          "datetime/bytes/dict/2^70), signed 32-bit and unsigned 64-bit NUMERIC at the range limits, float incl. -0.0 and a denormal, DATETIME, BOOLEAN, decimal "
          "NUMERIC, KEYWORD, _stored_ override}; value variant 0..2; 6 configurations of storage (RAM, file mmap on/off) x compound x merge x copy_to_ram; "
          "stored_fields, Hit[...] and column readers per document",
   funcs=["whoosh.writing.SegmentWriter.add_document", "whoosh.codec.whoosh3.W3PerDocWriter", "whoosh.codec.whoosh3.W3PerDocReader.stored_fields",
          "whoosh.columns.CompressedBytesColumn", "whoosh.fields.NUMERIC.to_column_value", "whoosh.fields.DATETIME", "whoosh.fields.BOOLEAN",
          "whoosh.filedb.compound.CompoundStorage", "whoosh.filedb.filestore.copy_to_ram", "whoosh.searching.Hit"],
   examples=[dict(m1=11, m2=0, m3=12, vs=1, cf=2), dict(m1=1, m2=9, m3=3, vs=0, cf=5)], timeout=dict(quick=900, thorough=3000),
   outside="more than 3 documents, pickle fidelity itself")
def c08_stored(m1: int, m2: int, m3: int, vs: int, cf: int) -> Optional[str]:
    """
    pre: 0 <= m1 < NM and 0 <= m2 < NM2 and 0 <= m3 < NM2 and 0 <= vs < 3 and 0 <= cf < 6
    post: _ is None
    """
    with notrace():
        r = run_e2e([MASKS[pick(m1, NM)], MASKS[pick(m2, NM2)], MASKS[pick(m3, NM2)]], pick(vs, 3), CONFIGS[pick(cf, 6)])
    tick(True)
    return r


NM2 = tiered(4, 6)
REJ = ["n", "u", "dt", "dec"]


@h(bounds="as c08_stored, with a document that add_document() rejects half way (inadmissible value in one of 4 fields chosen by a symbolic code, "
          "exception absorbed by the caller) added by the same writer just before document 0..2 (symbolic); the accepted documents must read back "
          "exactly as supplied and no term of the rejected document may be searchable",
   funcs=["whoosh.writing.SegmentWriter.add_document", "whoosh.codec.whoosh3.W3PerDocWriter.cancel_doc", "whoosh.codec.whoosh3.W3PerDocWriter.start_doc"],
   examples=[dict(m1=11, m2=0, at=1, rf=0, cf=2), dict(m1=1, m2=3, at=0, rf=1, cf=0)], timeout=dict(quick=900, thorough=3000),
   outside="more than 3 documents; rejection inside MpWriter sub-processes")
def c08_rejected(m1: int, m2: int, at: int, rf: int, cf: int) -> Optional[str]:
    """
    pre: 0 <= m1 < NM and 0 <= m2 < NM2 and 0 <= at < 3 and 0 <= rf < 4 and 0 <= cf < 6
    post: _ is None
    """
    with notrace():
        ma, mb = MASKS[pick(m1, NM)], MASKS[pick(m2, NM2)]
        r = run_e2e([ma, mb, ma ^ 1023], 1, CONFIGS[pick(cf, 6)], reject=(pick(at, 3), REJ[pick(rf, 4)]))
    tick(True)
    return r


def _kf_dt():
    st = RamStorage()
    ix = st.create_index(fields.Schema(k=fields.ID(stored=True), dt=fields.DATETIME(sortable=True)))
    w = ix.writer()
    w.add_document(k=u"a", dt=datetime.datetime(2000, 1, 1))
    w.add_document(k=u"b")
    w.commit()
    with ix.searcher() as s:
        try:
            v = s.reader().column_reader("dt")[1]
        except OverflowError as e:
            return "column_reader('dt')[doc without a date] raised OverflowError: %s" % e
    return None


@h(bounds="witness of known finding KF-C08-1 (concrete)", funcs=["whoosh.fields.DATETIME.from_column_value", "whoosh.util.times.long_to_datetime"],
   examples=[], timeout=dict(quick=60, thorough=60))
def c08_kf_datetime_default(k: int) -> Optional[str]:
    """
    pre: k == 0
    post: _ is None
    """
    with notrace():
        r = _kf_dt()
    tick(True)
    return None if r is None else "KF-C08-1 witness: %s" % r
