"""C06: segment layout is invisible - the logical content of an index depends only on the sequence of
document-level operations, not on how they were cut into commits or which merge policy ran.
(C18 reuses the helpers with storage / front-end configurations.)

Symbolic inputs: the cut mask (after which operations a commit happens) and the merge pattern code;
the operation list and all data are concrete, the writer stack runs natively."""
import random
from typing import Optional

from vk.prelude import THOROUGH, h, tick, tiered, concrete_arrays, notrace, sym_true
from whoosh import fields, query, writing, analysis, columns
from whoosh.filedb.filestore import RamStorage
from whoosh.codec.whoosh3 import W3Codec

concrete_arrays()


def schema():
    ana = analysis.StandardAnalyzer(stoplist=None, minsize=1)
    sch = fields.Schema(
        k=fields.ID(stored=True, unique=True),
        t=fields.TEXT(analyzer=ana, phrase=True, chars=True, vector=True, stored=True),
        g=fields.KEYWORD(stored=True, scorable=True, lowercase=True),
        n=fields.NUMERIC(int, bits=16, signed=True, sortable=True, stored=True),
        kind=fields.ID(stored=True),
        s=fields.STORED)
    # a dynamic (glob) field that is indexed and scorable but not stored: only its postings and lengths carry it through a merge
    sch.add("*_dyn", fields.TEXT(analyzer=ana, phrase=False), glob=True)
    # a column-only field: neither indexed nor stored, it exists only in its column file
    sch.add("cc", fields.COLUMN(columns.NumericColumn("i", default=-1)))
    return sch


# (op, payload)
OPS = [
    ("add", dict(k=u"d1", t=u"alfa bravo charlie alfa", g=u"red blue", n=-3, kind=u"doc", s=[1, 2], x_dyn=u"zulu yankee zulu", cc=41)),
    ("group", [dict(k=u"p1", t=u"parent alfa", g=u"red", n=10, kind=u"parent"),
               dict(k=u"c1", t=u"child bravo bravo", g=u"blue", n=11, kind=u"child", x_dyn=u"yankee", cc=42),
               dict(k=u"c2", t=u"child charlie", g=u"green", n=12, kind=u"child")]),
    ("add", dict(k=u"d2", t=u"delta echo alfa", g=u"green", n=300, kind=u"doc", s={"x": 1})),
    ("delete", u"d1"),
    ("update", dict(k=u"d2", t=u"delta foxtrot", g=u"red", n=301, kind=u"doc", cc=43)),
    ("add", dict(k=u"d3", t=u"bravo golf alfa alfa alfa", g=u"blue green", n=7, kind=u"doc", x_dyn=u"zulu xray xray xray")),
]
# a second group, issued after the forced commit so that it passes through the writer front-end under test (C18)
OPS += [("group", [dict(k=u"p2", t=u"parent echo", g=u"red", n=20, kind=u"parent"),
                   dict(k=u"c3", t=u"child bravo hotel", g=u"blue", n=21, kind=u"child", cc=44),
                   dict(k=u"c4", t=u"child india", g=u"green", n=22, kind=u"child")])]
if THOROUGH:
    OPS += [("add", dict(k=u"d4", t=u"hotel", g=u"", n=0, kind=u"doc")), ("delete", u"c2_absent")]
NCUT = len(OPS) - 1
# A writer's delete/update only affects *committed* documents (the key discipline of C07), so the
# documents that are later deleted/updated must be committed first: there is always a commit after
# operation index FORCED (bit FORCED of every cut mask is set, also in the baseline).
FORCED = 2

MERGE_PATTERNS = [
    ("all merge=False", lambda i, n: dict(merge=False)),
    ("all default", lambda i, n: dict()),
    ("all optimize", lambda i, n: dict(optimize=True)),
    ("default, last optimize", lambda i, n: dict(optimize=True) if i == n - 1 else dict()),
    ("merge=False, last default", lambda i, n: dict() if i == n - 1 else dict(merge=False)),
    ("alternate False/optimize", lambda i, n: dict(merge=False) if i % 2 == 0 else dict(optimize=True)),
    ("first optimize then False", lambda i, n: dict(optimize=True) if i == 0 else dict(merge=False)),
    ("custom policy: merge everything but the biggest", lambda i, n: dict(mergetype=_custom_policy)),
]
NPAT = len(MERGE_PATTERNS)


def _custom_policy(writer, segments):
    from whoosh.reading import SegmentReader
    if len(segments) <= 1:
        return segments
    big = max(segments, key=lambda s: s.doc_count_all())
    keep = [big]
    for seg in segments:
        if seg is big:
            continue
        reader = SegmentReader(writer.storage, writer.schema, seg)
        writer.add_reader(reader)
        reader.close()
    return keep


def apply_op(w, op):
    kind, payload = op
    if kind == "add":
        w.add_document(**payload)
    elif kind == "group":
        with w.group():
            for d in payload:
                w.add_document(**d)
    elif kind == "delete":
        w.delete_by_term("k", payload)
    elif kind == "update":
        w.update_document(**payload)


def _ranked(results):
    """(key, score) best first; equal scores in key order (their relative order is the document order, which is layout dependent)"""
    return tuple(sorted(((h_["k"], round(h_.score, 9)) for h_ in results), key=lambda x: (-x[1], x[0])))


def full_dump(ix, with_stats):
    """Canonical logical content."""
    out = {}
    with ix.searcher() as s:
        r = s.reader()
        docs = []
        order = []
        for docnum in r.all_doc_ids():
            sf = r.stored_fields(docnum)
            order.append(sf["k"])
            lens = tuple((f, r.doc_field_length(docnum, f)) for f in ("t", "g", "x_dyn"))
            vec = None
            if r.has_vector(docnum, "t"):
                vec = tuple((repr(t), tuple(v)) for t, v in r.vector_as("positions", docnum, "t"))
            docs.append((sf["k"], tuple(sorted((k, repr(v)) for k, v in sf.items())), lens, vec))
        out["docs"] = tuple(sorted(docs))
        out["count"] = r.doc_count()
        lex = []
        for fname in ("k", "t", "g", "kind", "x_dyn"):
            for text in r.lexicon(fname):
                m = r.postings(fname, text)
                ps = []
                while m.is_active():
                    key = r.stored_fields(m.id())["k"]
                    val = None
                    if fname == "t":
                        val = (tuple(m.value_as("positions")), tuple(m.value_as("characters")))
                    ps.append((key, round(m.weight(), 5), val))
                    m.next()
                if ps:
                    lex.append((fname, bytes(text), tuple(sorted(ps))))
        out["lexicon"] = tuple(lex)
        cr = r.column_reader("n")
        out["column n"] = tuple(sorted((r.stored_fields(d)["k"], cr[d]) for d in r.all_doc_ids()))
        ccr = r.column_reader("cc")
        out["column cc"] = tuple(sorted((r.stored_fields(d)["k"], ccr[d]) for d in r.all_doc_ids()))
        out["sorted by n"] = tuple(h_["k"] for h_ in s.search(query.Every(), sortedby="n", limit=None))
        out["num range"] = tuple(sorted(h_["k"] for h_ in s.search(query.NumericRange("n", 7, 300), limit=None)))
        out["phrase"] = tuple(sorted(h_["k"] for h_ in s.search(query.Phrase("t", [u"alfa", u"alfa"]), limit=None)))
        # grouped documents stay adjacent and in order
        if all(x in order for x in (u"p2", u"c3", u"c4")):
            i = order.index(u"p2")
            out["group 2 adjacent"] = order[i:i + 3] == [u"p2", u"c3", u"c4"]
        if all(x in order for x in (u"p1", u"c1", u"c2")):
            i = order.index(u"p1")
            out["group adjacent"] = order[i:i + 3] == [u"p1", u"c1", u"c2"]
            from whoosh.query import NestedParent
            np = NestedParent(query.Term("kind", u"parent"), query.Term("t", u"bravo"))
            out["nested parent"] = tuple(sorted(h_["k"] for h_ in s.search(np, limit=None)))
        if with_stats:
            out["doc_count_all"] = r.doc_count_all()
            st = []
            for fname, text in ((u"t", u"alfa"), (u"t", u"bravo"), (u"g", u"red")):
                ti = r.term_info(fname, text)
                st.append((fname, text, ti.doc_frequency(), round(ti.weight(), 5), ti.min_length(), ti.max_length(), round(ti.max_weight(), 5)))
            out["term stats"] = tuple(st)
            out["field length t"] = r.field_length("t")
            out["field length x_dyn"] = (r.field_length("x_dyn"), r.min_field_length("x_dyn"), r.max_field_length("x_dyn"))
            out["scores x_dyn"] = _ranked(s.search(query.Term("x_dyn", u"zulu"), limit=None))
            out["scores"] = _ranked(s.search(query.Or([query.Term("t", u"alfa"), query.Term("t", u"bravo")]), limit=None))
    return out


def diff(a, b):
    for k in sorted(set(a) | set(b)):
        if a.get(k) != b.get(k):
            return "%s: %r vs baseline %r" % (k, a.get(k), b.get(k))
    return None


_BASE = {}


def has_deletes(ops):
    return any(o[0] in ("delete", "update") for o in ops)


def baseline(ops=None, key="std"):
    """fewest possible commits (one, or two when the operation list deletes), optimised, RamStorage, plain writer"""
    if key not in _BASE:
        random.seed(11)
        ops = ops or OPS
        st = RamStorage()
        ix = st.create_index(schema())
        w = ix.writer(codec=W3Codec(blocklimit=2))
        for i, op in enumerate(ops):
            apply_op(w, op)
            if has_deletes(ops) and i == FORCED:
                w.commit(optimize=True)
                w = ix.writer(codec=W3Codec(blocklimit=2))
        w.commit(optimize=True)
        _BASE[key] = full_dump(ix, with_stats=not has_deletes(ops))
    return _BASE[key]


def pick(x, n):
    for v in range(n - 1):
        if sym_true(lambda: x == v):
            return v
    return n - 1


def run_history(cutmask, pattern, blocklimit, ops=None, key="std"):
    ops = ops or OPS
    base = baseline(ops, key)
    if has_deletes(ops):
        cutmask |= 1 << FORCED
    random.seed(12)
    st = RamStorage()
    ix = st.create_index(schema())
    ncommits = 1 + bin(cutmask).count("1")
    w = None
    ci = 0
    pat = MERGE_PATTERNS[pattern]
    for i, op in enumerate(ops):
        if w is None:
            w = ix.writer(codec=W3Codec(blocklimit=blocklimit))
        apply_op(w, op)
        last = i == len(ops) - 1
        if last or (cutmask >> i) & 1:
            w.commit(**pat[1](ci, ncommits))
            ci += 1
            w = None
    got = full_dump(ix, with_stats=not has_deletes(ops))
    d = diff(got, base)
    where = "cuts=%s pattern=%r blocklimit=%d" % (bin(cutmask), pat[0], blocklimit)
    if d:
        return "%s: %s" % (where, d)
    # optimise at the end: physically removes deleted documents, content unchanged
    w = ix.writer(codec=W3Codec(blocklimit=blocklimit))
    w.commit(optimize=True)
    if ix.reader().has_deletions() or len(ix._read_toc().segments) > 1:
        return "%s: optimise left deletions or several segments" % where
    d = diff(full_dump(ix, with_stats=not has_deletes(ops)), base)
    if d:
        return "%s then optimize: %s" % (where, d)
    return None


FUNCS = ["whoosh.writing.SegmentWriter.commit", "whoosh.writing.SegmentWriter.add_reader", "whoosh.writing.MERGE_SMALL", "whoosh.writing.OPTIMIZE",
         "whoosh.writing.SegmentWriter._merge_per_doc", "whoosh.codec.base.PerDocumentWriter", "whoosh.codec.whoosh3.W3FieldWriter",
         "whoosh.codec.whoosh3.W3PerDocWriter", "whoosh.reading.MultiReader", "whoosh.externalsort.SortingPool"]


@h(bounds="%d document operations (adds, a 3-document group, delete_by_term, update) cut into commits by every cut mask (2^%d), 8 merge patterns "
          "(merge=False / default / optimize / mixtures / a custom policy), codec block limit in {1, 2, 3}; compared with the single-commit optimised build: "
          "stored fields, lexicon, postings with weights/positions/characters, field lengths, vectors, column values, sort order, range and phrase results, "
          "group adjacency, nested-parent query; then optimise and compare again" % (len(OPS), NCUT),
   funcs=FUNCS, examples=[dict(cut=5, pat=1, bl=1), dict(cut=0, pat=2, bl=0)], timeout=dict(quick=900, thorough=3000),
   outside="corpora other than the fixed operation list, MpWriter (C18), external-sort spill to disk")
def c06_histories(cut: int, pat: int, bl: int) -> Optional[str]:
    """
    pre: 0 <= cut < 2 ** NCUT and 0 <= pat < NPAT and 0 <= bl < 3
    post: _ is None
    """
    with notrace():
        c = pick(cut, 2 ** NCUT)
        r = run_history(c, pick(pat, NPAT), [2, 1, 3][pick(bl, 3)])
    tick(c != 0)
    return r


# without deletions: statistics and scores are layout independent too
OPS_NODEL = [o for o in OPS if o[0] in ("add", "group")]


@h(bounds="the %d add/group operations only (no deletions): additionally doc_count_all, term statistics (doc frequency, total weight, min/max length, "
          "max weight), field length totals and BM25F scores must be layout independent; all cut masks x 8 merge patterns x block limit {1,2}" % len(OPS_NODEL),
   funcs=FUNCS, examples=[dict(cut=3, pat=0, bl=0)], timeout=dict(quick=900, thorough=3000))
def c06_nodel_stats(cut: int, pat: int, bl: int) -> Optional[str]:
    """
    pre: 0 <= cut < 2 ** (NNODEL - 1) and 0 <= pat < NPAT and 0 <= bl < 2
    post: _ is None
    """
    with notrace():
        c = pick(cut, 2 ** (NNODEL - 1))
        r = run_history(c, pick(pat, NPAT), [2, 1][pick(bl, 2)], ops=OPS_NODEL, key="nodel")
    tick(c != 0)
    return r


NNODEL = len(OPS_NODEL)
