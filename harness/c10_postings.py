"""C10: postings, term statistics and vectors read back exactly what analysis produced (E1 symbolic
document codes; native codec stack).

Each of 4 documents takes its text from a table of token sequences by a symbolic code; the index is
written with a symbolic codec configuration (W3 block limit 1..3, compression 0/3, inline limit, memory
codec through a BufferedWriter searcher) and field format; posting lists, term statistics and term
vectors are compared with the transposed output of the field's own analyzer."""
import random
from typing import List, Optional

from vk.prelude import THOROUGH, h, tick, tiered, concrete_arrays, notrace, sym_true
from whoosh import fields, analysis, formats, writing
from whoosh.filedb.filestore import RamStorage
from whoosh.codec.whoosh3 import W3Codec
from whoosh.util.numeric import length_to_byte, byte_to_length

concrete_arrays()

TEXTS = [u"", u"alfa", u"alfa alfa alfa", u"alfa bravo alfa", u"bravo charlie", u"charlie " + u"x" * 70 + u" alfa",
         u"école alfa \U0001F600", u"bravo bravo charlie alfa bravo", u"alfa^2 bravo",
         u"alfa^0.5 charlie",     # a weight below 1 next to weights of exactly 1 in one block
         u"delta^0 alfa"]         # a posting whose weight is exactly 0.0 (a block whose weights are all zero; seed C10-3 read them back as 1.0)
NT = len(TEXTS)
FORMATS = ["positions", "characters", "frequency", "existence", "position_boosts", "character_boosts"]
CODECS = [("w3 block1", dict(blocklimit=1)), ("w3 block2", dict(blocklimit=2)), ("w3 block3 z3", dict(blocklimit=3, compression=3)),
          ("w3 block128", dict()), ("w3 inline0", dict(blocklimit=2, inlinelimit=0)), ("memory", None)]
NC = len(CODECS)


def analyzer():
    return analysis.RegexTokenizer(r"[^ ]+") | analysis.LowercaseFilter() | analysis.DelimitedAttributeFilter(delimiter="^", attribute="boost", default=1.0, type=float)


def field_for(fmt):
    ana = analyzer()
    if fmt == "positions":
        return fields.TEXT(analyzer=ana, phrase=True, chars=False, vector=True)
    if fmt == "characters":
        return fields.TEXT(analyzer=ana, phrase=True, chars=True, vector=formats.Characters())
    if fmt == "frequency":
        return fields.TEXT(analyzer=ana, phrase=False, vector=formats.Frequency())
    if fmt == "existence":
        f = fields.TEXT(analyzer=ana, phrase=False)
        f.format = formats.Existence()
        return f
    if fmt == "position_boosts":
        f = fields.TEXT(analyzer=ana, phrase=True, vector=formats.PositionBoosts())
        f.format = formats.PositionBoosts()
        return f
    f = fields.TEXT(analyzer=ana, phrase=True, vector=formats.CharacterBoosts())
    f.format = formats.CharacterBoosts()
    return f


def pick(x, n):
    for v in range(n - 1):
        if sym_true(lambda: x == v):
            return v
    return n - 1


def model(texts):
    """term -> [(docnum, freq, weight, positions, chars, boosts)] from the analyzer itself (index mode)"""
    ana = analyzer()
    post = {}
    lengths = {}
    for docnum, text in enumerate(texts):
        toks = [(t.text, t.pos, t.startchar, t.endchar, t.boost) for t in ana(text, positions=True, chars=True, boosts=True, mode="index")]
        lengths[docnum] = len(toks)
        per = {}
        for (tx, pos, sc, ec, bo) in toks:
            per.setdefault(tx, []).append((pos, sc, ec, bo))
        for tx, occ in per.items():
            post.setdefault(tx, []).append((docnum, len(occ), occ))
    return post, lengths


def f32(x):
    import struct
    return struct.unpack("f", struct.pack("f", x))[0]


def check_index(reader, texts, fmt, where, field_boost=1.0):
    post, lengths = model(texts)
    if fmt == "existence":
        # the Existence format records each distinct term once, so the field length is the number of distinct terms
        lengths = dict((d, len([1 for plist in post.values() if any(e[0] == d for e in plist)])) for d in lengths)
    try:
        lex = sorted(reader.field_terms("t"))
    except Exception as e:  # noqa
        if post or type(e).__name__ != "TermNotFound":
            raise
        lex = []      # the in-memory codec raises TermNotFound for a field without any term; nothing was indexed
    if lex != sorted(post):
        return "%s: lexicon %r, analysis produced %r" % (where, lex, sorted(post))
    for term, plist in post.items():
        m = reader.postings("t", term)
        got = []
        while m.is_active():
            entry = [m.id(), m.weight()]
            if fmt in ("positions", "characters", "position_boosts", "character_boosts"):
                entry.append(list(m.value_as("positions")))
            if fmt in ("characters", "character_boosts"):
                entry.append([(p, s, e) for p, s, e in m.value_as("characters")])
            if fmt == "position_boosts":
                entry.append([(p, round(b, 5)) for p, b in m.value_as("position_boosts")])
            if fmt in ("frequency", "positions", "characters"):
                entry.append(m.value_as("frequency"))
            got.append(entry)
            m.next()
        want = []
        for docnum, freq, occ in plist:
            if fmt == "existence":
                w = 1.0
            else:
                w = sum(o[3] for o in occ)       # the weight is the sum of the per-token boosts
            entry = [docnum, f32(w * field_boost)]
            if fmt in ("positions", "characters", "position_boosts", "character_boosts"):
                entry.append([o[0] for o in occ])
            if fmt in ("characters", "character_boosts"):
                entry.append([(o[0], o[1], o[2]) for o in occ])
            if fmt == "position_boosts":
                entry.append([(o[0], round(o[3], 5)) for o in occ])
            if fmt in ("frequency", "positions", "characters"):
                entry.append(freq)
            want.append(entry)
        gw = [[e[0], round(e[1], 5)] + e[2:] for e in got]
        ww = [[e[0], round(e[1], 5)] + e[2:] for e in want]
        if gw != ww:
            return "%s: postings of %r read %r, analysis produced %r" % (where, term, gw, ww)
        ti = reader.term_info("t", term)
        weights = [e[1] for e in want]
        lens = [lengths[e[0]] for e in want]
        stats = (ti.doc_frequency(), round(ti.weight(), 4), ti.min_id(), ti.max_id(), round(ti.max_weight(), 4))
        wstats = (len(want), round(sum(weights), 4), want[0][0], want[-1][0], round(max(weights), 4))
        if stats != wstats:
            return "%s: term_info(%r) (df, weight, min_id, max_id, max_weight) = %r, true aggregates %r" % (where, term, stats, wstats)
        if True:
            mn, mx = ti.min_length(), ti.max_length()
            wmn = byte_to_length(length_to_byte(min(lens)))
            wmx = byte_to_length(length_to_byte(max(lens)))
            if (mn, mx) != (wmn, wmx):
                return "%s: term_info(%r) min/max length %r, true (byte-approximated) %r" % (where, term, (mn, mx), (wmn, wmx))
    # vectors = transposed postings of the document
    if fmt in ("positions", "characters", "frequency", "position_boosts", "character_boosts"):
        for docnum, text in enumerate(texts):
            wantv = sorted((term, [o for d, f, o in plist if d == docnum]) for term, plist in post.items() if any(d == docnum for d, _, _ in plist))
            if not wantv:
                if reader.has_vector(docnum, "t"):
                    return "%s: document %d has a vector but no terms" % (where, docnum)
                continue
            if not reader.has_vector(docnum, "t"):
                return "%s: document %d has no vector" % (where, docnum)
            v = reader.vector(docnum, "t")
            gotv = []
            while v.is_active():
                gotv.append((v.id().decode("utf8") if isinstance(v.id(), bytes) else v.id(), round(v.weight(), 4)))
                v.next()
            wv = [(term, round(f32(sum(o[3] for o in occ[0])), 4)) for term, occ in wantv]
            if gotv != wv:
                return "%s: vector of document %d = %r, transposed postings %r" % (where, docnum, gotv, wv)
    # per-document field lengths
    for docnum in range(len(texts)):
        got = reader.doc_field_length(docnum, "t")
        wantl = byte_to_length(length_to_byte(lengths[docnum])) if lengths[docnum] else 0
        if got != wantl:
            return "%s: doc_field_length(%d) = %r, true (byte-approximated) %r" % (where, docnum, got, wantl)
    return None


def run(codes, fmt_i, codec_i):
    random.seed(17)
    texts = [TEXTS[c] for c in codes]
    fmt = FORMATS[fmt_i]
    cname, ckw = CODECS[codec_i]
    schema = fields.Schema(k=fields.ID(stored=True), t=field_for(fmt))
    st = RamStorage()
    ix = st.create_index(schema)
    where = "%s/%s texts=%r" % (fmt, cname, codes)
    try:
        if ckw is None:
            bw = writing.BufferedWriter(ix, period=None, limit=100)
            try:
                for i, tx in enumerate(texts):
                    bw.add_document(k=u"%d" % i, t=tx)
                r = bw.reader()
                err = check_index(r, texts, fmt, where + " (buffered, memory codec)")
                r.close()
                if err:
                    return err
            finally:
                bw.close()
            r = ix.reader()
        else:
            w = ix.writer(codec=W3Codec(**ckw))
            for i, tx in enumerate(texts):
                w.add_document(k=u"%d" % i, t=tx)
            w.commit()
            r = ix.reader()
        err = check_index(r, texts, fmt, where)
        r.close()
        return err
    except Exception as e:  # noqa
        import traceback
        return "%s: raised %s: %s | %s" % (where, type(e).__name__, e, traceback.format_exc()[-300:].replace("\n", " "))


FUNCS = ["whoosh.codec.whoosh3.W3PostingsWriter", "whoosh.codec.whoosh3.W3LeafMatcher", "whoosh.codec.whoosh3.W3TermInfo", "whoosh.codec.whoosh3.W3FieldWriter",
         "whoosh.codec.whoosh3.W3PerDocWriter", "whoosh.codec.base.FieldWriter.add_postings", "whoosh.codec.memory.MemoryCodec",
         "whoosh.formats.Positions", "whoosh.formats.Characters", "whoosh.formats.PositionBoosts", "whoosh.formats.CharacterBoosts",
         "whoosh.formats.Frequency", "whoosh.formats.Existence", "whoosh.fields.TEXT.index", "whoosh.writing.SegmentWriter.add_document"]
ND = tiered(3, 4)
NT4 = 3      # thorough: the fourth document takes one of the first 3 token sequences (empty, single term, repeated term)


def _mk(fmt_i):
    name = "c10_format_" + FORMATS[fmt_i]

    @h(bounds="format %s: %d documents (a fourth one, thorough only, from 3 sequences), each text one of %d token sequences (empty, repeats, 72-character term, non-BMP and accented terms, per-token "
              "boosts) chosen by a symbolic code; %d codec configurations (W3 block limit 1/2/3/128, compression, inlining off, memory codec); postings "
              "(ids, weights to float32, positions, characters, boosts), term statistics, vectors, field lengths" % (FORMATS[fmt_i], ND, NT, NC),
       funcs=FUNCS, examples=[dict(codes=[3, 7, 1, 4][:ND], cd=1), dict(codes=[0, 5, 6, 2][:ND], cd=5)], timeout=dict(quick=900, thorough=3000),
       outside="plain-text codec, more than %d documents per list, zlib/pickle/struct themselves" % ND)
    def harness(codes: List[int], cd: int) -> Optional[str]:
        """
        pre: len(codes) == ND and 0 <= cd < NC
        pre: all(0 <= c < NT for c in codes[:3]) and all(0 <= c < NT4 for c in codes[3:])
        post: _ is None
        """
        from harness.c07_model import sym_true_idx
        with notrace():
            cs = [pick(sym_true_idx(codes, i), NT if i < 3 else NT4) for i in range(ND)]
            r = run(cs, fmt_i, pick(cd, NC))
        tick(True)
        return r
    harness.__name__ = harness.__qualname__ = name
    return name, harness


for _i in range(len(FORMATS)):
    _n, _f = _mk(_i)
    globals()[_n] = _f
