"""C13: sortable encodings and tiered numeric ranges (E2 pybmc on the real functions, E3 QF_FP)."""
import struct
import sys
import time

import z3

from vk.pybmc import Engine, Unsupported, discharge, Gen
from vk.smt import q
from whoosh.util import numeric as N

TIER = __import__("os").environ.get("VERIF_TIER", "quick")


# ---------------------------------------------------------------- replay functions (plain python)
def rp_split(intsize, step, start, end, v):
    """v is matched by some yielded tier  <=>  start <= v <= end; tiers must be packable."""
    tiers = list(N.split_ranges(intsize, step, start, end))
    levels = set(range(0, intsize, step))
    hit = False
    for s, e, sh in tiers:
        if sh not in levels:
            return "tier %r uses a shift that is never indexed" % ((s, e, sh),)
        if not (0 <= (s >> sh) < (1 << intsize) and 0 <= (e >> sh) < (1 << intsize)):
            return "tier %r does not fit %d bits" % ((s, e, sh), intsize)
        if (s >> sh) <= (v >> sh) <= (e >> sh):
            hit = True
    if hit != (start <= v <= end):
        return "value %d %s by tiers %r of [%d, %d]" % (v, "matched" if hit else "missed", tiers, start, end)
    return None


def rp_sortable_int(intsize, signed, x, y):
    lo = -(1 << (intsize - 1)) if signed else 0
    hi = (1 << (intsize - 1)) - 1 if signed else (1 << intsize) - 1
    assert lo <= x <= hi and lo <= y <= hi
    sx, sy = N.to_sortable(int, intsize, signed, x), N.to_sortable(int, intsize, signed, y)
    if not (0 <= sx < (1 << intsize)):
        return "to_sortable(%d) = %d outside [0, 2^%d)" % (x, sx, intsize)
    if N.from_sortable(int, intsize, signed, sx) != x:
        return "from_sortable(to_sortable(%d)) = %d" % (x, N.from_sortable(int, intsize, signed, sx))
    if (x < y) != (sx < sy):
        return "order not preserved: %d,%d -> %d,%d" % (x, y, sx, sy)
    return None


def rp_from_sortable_int(intsize, signed, s):
    x = N.from_sortable(int, intsize, signed, s)
    lo = -(1 << (intsize - 1)) if signed else 0
    hi = (1 << (intsize - 1)) - 1 if signed else (1 << intsize) - 1
    if not lo <= x <= hi:
        return "from_sortable(%d) = %d outside the domain" % (s, x)
    if N.to_sortable(int, intsize, signed, x) != s:
        return "to_sortable(from_sortable(%d)) = %d" % (s, N.to_sortable(int, intsize, signed, x))
    return None


def _bits_to_float(b):
    return struct.unpack(">d", struct.pack(">Q", b))[0]


def rp_sortable_float(signed, xbits, ybits):
    x, y = _bits_to_float(xbits), _bits_to_float(ybits)
    sx, sy = N.float_to_sortable_long(x, signed), N.float_to_sortable_long(y, signed)
    if signed and not (0 <= sx < (1 << 64)):
        return "sortable %d of %r outside [0,2^64)" % (sx, x)
    back = N.sortable_long_to_float(sx, signed)
    if struct.pack(">d", back) != struct.pack(">d", x):
        return "round trip %r -> %d -> %r" % (x, sx, back)
    if x < y and not sx < sy:
        return "order: %r < %r but %d >= %d" % (x, y, sx, sy)
    if sx < sy and not (x < y or (x == 0.0 and y == 0.0)):
        return "order: %d < %d but not %r < %r" % (sx, sy, x, y)
    return None


# ---------------------------------------------------------------- H2: split_ranges
def _split_job(intsize, step):
    W = intsize + 8

    def job(rep):
        eng = Engine(width=W, mode="merge", unwind=(intsize + step - 1) // step + 1, timeout_ms=int(rep.timeout * 1000 / 3))
        start, end, v = eng.sym_int("start"), eng.sym_int("end"), eng.sym_int("v")
        lim = 1 << intsize
        pre = [start >= 0, start < lim, end >= 0, end < lim, v >= 0, v < lim]
        for p in pre:
            eng.solver.add(p)
        try:
            gen = eng.call(N.split_ranges, [intsize, step, start, end], {})
        except Unsupported as e:
            rep.inconclusive("encode", "pybmc: %s" % e)
            return
        assert isinstance(gen, Gen)
        covered = z3.BoolVal(False)
        misfit = z3.BoolVal(False)
        levels = set(range(0, intsize, step))
        for g, (s, e, sh) in gen.items:
            assert isinstance(sh, int)
            gg = eng.expr(g)
            if sh not in levels:
                misfit = z3.Or(misfit, gg)
                continue
            s, e = eng.to_term(s), eng.to_term(e)
            covered = z3.Or(covered, z3.And(gg, (s >> sh) <= (v >> sh), (v >> sh) <= (e >> sh)))
            misfit = z3.Or(misfit, z3.And(gg, z3.Or((s >> sh) < 0, (s >> sh) >= lim, (e >> sh) < 0, (e >> sh) >= lim)))
        want = z3.And(start <= v, v <= end)

        def model_call(m):
            vals = [m.eval(x, model_completion=True).as_signed_long() for x in (start, end, v)]
            return "rp_split(%d, %d, %d, %d, %d)" % (intsize, step, vals[0], vals[1], vals[2])

        for name, bad in (("exact-cover", covered != want), ("tiers-packable", misfit)):
            eng.solver.push()
            eng.solver.add(bad)
            r = eng.check()
            if r == z3.sat:
                rep.violation("split_ranges(%d,%d) %s" % (intsize, step, name), model_call(eng.last_model))
            elif r == z3.unsat:
                rep.held("split_ranges(%d,%d) %s" % (intsize, step, name))
            else:
                rep.inconclusive("split_ranges(%d,%d) %s" % (intsize, step, name), "solver unknown")
            eng.solver.pop()
        # side conditions: no overflow of the bit-vector model, unwinding assertion
        bad = [b for _, b in eng.obligations]
        if bad:
            eng.solver.push()
            eng.solver.add(z3.Or(*bad))
            r = eng.check()
            if r == z3.unsat:
                rep.held("split_ranges(%d,%d) %d side conditions (no overflow at width %d, unwinding)" % (intsize, step, len(bad), W))
            elif r == z3.sat:
                m = eng.last_model
                which = [n for n, b in eng.obligations if z3.is_true(m.eval(b, model_completion=True))]
                rep.inconclusive("split_ranges(%d,%d) side conditions" % (intsize, step),
                                 "bit-vector model not faithful for %s: %s" % (model_call(m), which[:4]))
            else:
                rep.inconclusive("split_ranges(%d,%d) side conditions" % (intsize, step), "solver unknown")
            eng.solver.pop()
        rep.sample({"function": "split_ranges", "intsize": intsize, "step": step, "yields": len(gen.items),
                    "obligations": len(eng.obligations)})
        rep.absorb(eng)
    name = "c13_split_%d_%d" % (intsize, step)
    job.__name__ = job.__qualname__ = name
    slow = False
    return name, q(bounds="intsize=%d step=%d; all 0<=start,end,v<2^%d incl. start>end; unwinding asserted" % (intsize, step, intsize),
                   funcs=["whoosh.util.numeric.split_ranges"], timeout=dict(quick=240, thorough=1800),
                   tiers=("thorough",) if slow else ("quick", "thorough"))(job)


MONO = {8: range(1, 9), 16: range(3, 9)}      # monolithic (fully unrolled) queries that z3 finishes quickly
for _i in MONO:
    for _s in MONO[_i]:
        _n, _f = _split_job(_i, _s)
        globals()[_n] = _f


def _split_inductive(intsize):
    """Cut-point (one inductive step per iteration) version: the loop state (start, end) is havocked at
    every loop head to fresh symbols constrained by the invariant Inv_k; per iteration k (shift = k*step)
    the solver proves   R_k(v) <=> tiers_k(v) or (continue_k and R_{k+1}(v))   and that Inv_{k+1} holds on
    continue, where R_k(v) := start>>shift <= v>>shift <= end>>shift is 'v still has to be covered'.
    R_0 is the requested interval and the last iteration never continues, so by induction over k the
    union of all tiers is exactly [start, end].  Every Inv_k state is reachable (start=S, end=E|low bits),
    which is how a counterexample is replayed against the real function."""
    W = intsize + 8
    lim = 1 << intsize

    def job(rep):
        for step in range(1, 9):
            eng = Engine(width=W, mode="merge", unwind=(intsize + step - 1) // step + 1,
                         timeout_ms=int(rep.timeout * 1000 / 10))
            v = eng.sym_int("v")
            segs = []

            def cut(e, fr, st, n, g):
                cur_start = e.to_term(e.load(fr.env["start"], g))
                cur_end = e.to_term(e.load(fr.env["end"], g))
                shift = e.load(fr.env["shift"], g)
                if segs:
                    segs[-1].update(post=(cur_start, cur_end, shift, e.expr(g)), y1=len(fr.yields), o1=len(e.obligations))
                S, E = e.sym_int("S%d" % n), e.sym_int("E%d" % n)
                fr.env["start"], fr.env["end"] = S, E
                segs.append(dict(pre=(S, E, shift), y0=len(fr.yields), o0=len(e.obligations), post=None))
                return True
            eng.cut = cut
            try:
                gen = eng.call(N.split_ranges, [intsize, step, eng.sym_int("start"), eng.sym_int("end")], {})
            except Unsupported as e:
                rep.inconclusive("encode split_ranges(%d,%d)" % (intsize, step), "pybmc: %s" % e)
                continue
            eng.cut = None
            if segs and "y1" not in segs[-1]:
                segs[-1].update(y1=len(gen.items), o1=len(eng.obligations))
            levels = set(range(0, intsize, step))
            ok = True
            for k, sg in enumerate(segs):
                S, E, sh = sg["pre"]
                if not isinstance(sh, int) or sh != k * step:
                    rep.inconclusive("split_ranges(%d,%d) iteration %d" % (intsize, step, k), "shift not concrete: %r" % (sh,))
                    ok = False
                    break
                low = (1 << sh) - 1
                inv = [S >= 0, S < lim, E >= 0, E < lim, S & low == 0, E & low == 0, v >= 0, v < lim]
                if k > 0:
                    inv.append(S <= E)
                R = z3.And((S >> sh) <= (v >> sh), (v >> sh) <= (E >> sh))
                tiers = z3.BoolVal(False)
                misfit = z3.BoolVal(False)
                for g, (ts, te, tsh) in gen.items[sg["y0"]:sg["y1"]]:
                    gg = eng.expr(g)
                    if tsh not in levels:
                        misfit = z3.Or(misfit, gg)
                        continue
                    ts, te = eng.to_term(ts), eng.to_term(te)
                    tiers = z3.Or(tiers, z3.And(gg, (ts >> tsh) <= (v >> tsh), (v >> tsh) <= (te >> tsh)))
                    misfit = z3.Or(misfit, z3.And(gg, z3.Or((ts >> tsh) < 0, (ts >> tsh) >= lim, (te >> tsh) < 0, (te >> tsh) >= lim)))
                if sg["post"] is not None:
                    nS, nE, nsh, cont = sg["post"]
                    if not isinstance(nsh, int):
                        rep.inconclusive("split_ranges(%d,%d) iteration %d" % (intsize, step, k), "next shift not concrete")
                        ok = False
                        break
                    nlow = (1 << nsh) - 1
                    Rn = z3.And(cont, (nS >> nsh) <= (v >> nsh), (v >> nsh) <= (nE >> nsh))
                    inv_next_bad = z3.And(cont, z3.Not(z3.And(nS >= 0, nS < lim, nE >= 0, nE < lim, nS & nlow == 0,
                                                             nE & nlow == 0, nS <= nE)))
                else:
                    Rn = z3.BoolVal(False)
                    inv_next_bad = z3.BoolVal(False)
                side = [b for _, b in eng.obligations[sg["o0"]:sg["o1"]]]
                goals = [("step", R != z3.Or(tiers, Rn)), ("tiers-packable", misfit), ("invariant", inv_next_bad)]
                if side:
                    goals.append(("no-overflow/unwind", z3.Or(*side)))
                for gname, bad in goals:
                    r = eng.check(*(inv + [bad]))
                    tag = "split_ranges(%d,%d) iteration %d (shift %d) %s" % (intsize, step, k, sh, gname)
                    if r == z3.unsat:
                        continue
                    ok = False
                    if r == z3.sat:
                        m = eng.last_model
                        Sv = m.eval(S, model_completion=True).as_signed_long()
                        Ev = m.eval(E, model_completion=True).as_signed_long()
                        vv = m.eval(v, model_completion=True).as_signed_long()
                        rep.violation(tag, "rp_split(%d, %d, %d, %d, %d)" % (intsize, step, Sv, Ev | low, vv),
                                      "(state S=%d E=%d v=%d)" % (Sv, Ev, vv))
                    else:
                        rep.inconclusive(tag, "solver unknown")
                if not ok:
                    break
            if ok:
                rep.held("split_ranges(%d,%d): %d inductive steps x (step, packable, invariant, side conditions)" % (intsize, step, len(segs)))
            rep.sample({"function": "split_ranges", "intsize": intsize, "step": step, "iterations": len(segs)})
            rep.absorb(eng)
    name = "c13_splitind_%d" % intsize
    job.__name__ = job.__qualname__ = name
    return name, q(bounds="intsize=%d, steps 1..8, every iteration as an inductive step from an arbitrary invariant state; "
                          "all 0<=start,end,v<2^%d incl. start>end" % (intsize, intsize),
                   funcs=["whoosh.util.numeric.split_ranges"], timeout=dict(quick=300, thorough=900))(job)


for _i in (8, 16, 32, 64):
    _n, _f = _split_inductive(_i)
    globals()[_n] = _f


# ---------------------------------------------------------------- H1: to_sortable / from_sortable (ints)
@q(bounds="int 8/16/32/64 x signed/unsigned, whole domain", funcs=["whoosh.util.numeric.to_sortable", "whoosh.util.numeric.from_sortable"])
def c13_sortable_int(rep):
    for intsize in (8, 16, 32, 64):
        for signed in (True, False):
            W = intsize + 8
            eng = Engine(width=W, mode="merge")
            x, y, s = eng.sym_int("x"), eng.sym_int("y"), eng.sym_int("s")
            lo = -(1 << (intsize - 1)) if signed else 0
            hi = (1 << (intsize - 1)) - 1 if signed else (1 << intsize) - 1
            pre = [x >= lo, x <= hi, y >= lo, y <= hi, s >= 0, s < (1 << intsize)]
            for p in pre:
                eng.solver.add(p)
            sx = eng.to_term(eng.call(N.to_sortable, [int, intsize, signed, x], {}))
            sy = eng.to_term(eng.call(N.to_sortable, [int, intsize, signed, y], {}))
            back = eng.to_term(eng.call(N.from_sortable, [int, intsize, signed, sx], {}))
            fs = eng.to_term(eng.call(N.from_sortable, [int, intsize, signed, s], {}))
            tfs = eng.to_term(eng.call(N.to_sortable, [int, intsize, signed, fs], {}))
            side = z3.Or(*[b for _, b in eng.obligations]) if eng.obligations else z3.BoolVal(False)
            goals = [
                ("range", z3.Or(sx < 0, sx >= (1 << intsize)), "x"),
                ("left-inverse", back != x, "x"),
                ("monotone", (x < y) != (sx < sy), "xy"),
                ("onto/right-inverse", z3.Or(fs < lo, fs > hi, tfs != s), "s"),
                ("no-overflow", side, "x"),
            ]
            for name, bad, kind in goals:
                eng.solver.push()
                eng.solver.add(bad)
                r = eng.check()
                tag = "to_sortable(int,%d,signed=%s) %s" % (intsize, signed, name)
                if r == z3.unsat:
                    rep.held(tag)
                elif r == z3.sat:
                    m = eng.last_model
                    if kind == "s":
                        call = "rp_from_sortable_int(%d, %s, %d)" % (intsize, signed, m.eval(s, model_completion=True).as_signed_long())
                    else:
                        call = "rp_sortable_int(%d, %s, %d, %d)" % (intsize, signed, m.eval(x, model_completion=True).as_signed_long(),
                                                                     m.eval(y, model_completion=True).as_signed_long())
                    rep.violation(tag, call)
                else:
                    rep.inconclusive(tag, "unknown")
                eng.solver.pop()
            rep.absorb(eng)
    rep.sample({"function": "to_sortable/from_sortable", "configs": 8})


# ---------------------------------------------------------------- H1 (floats): float_to_sortable_long / sortable_long_to_float
class _Packed(object):
    """result of the stubbed struct pack: carries the 64 IEEE bits"""
    def __init__(self, bits):
        self.bits = bits


def _float_stubs(W):
    def dpack(eng, x):                       # struct '>d' pack of a float -> its IEEE-754 bits
        if not (z3.is_expr(x) and z3.is_fp(x)):
            x = z3.FPVal(float(x), z3.Float64())
        return _Packed(z3.fpToIEEEBV(x))

    def qunpack(eng, p):                     # struct '>q' unpack -> signed 64-bit int (sign-extended to W)
        return (z3.SignExt(W - 64, p.bits),)

    def qpack(eng, i):                       # struct '>q' pack of an int (must fit 64 bits signed)
        t = eng.to_term(i)
        eng.oblige("qpack-range", z3.Or(t < -(1 << 63), t >= (1 << 63)))
        return _Packed(z3.Extract(63, 0, t))

    def dunpack(eng, p):                     # struct '>d' unpack -> float
        return (z3.fpBVToFP(p.bits, z3.Float64()),)
    return {N._dpack: dpack, N._qunpack: qunpack, N._qpack: qpack, N._dunpack: dunpack}


@q(bounds="every non-NaN IEEE double (incl. +-0, denormals, +-inf), signed=True (the only constructible float field); QF_FP + bit-vectors",
   funcs=["whoosh.util.numeric.float_to_sortable_long", "whoosh.util.numeric.sortable_long_to_float"],
   stubs=["struct '>d'/'>q' pack/unpack pairs -> fpToIEEEBV / fpBVToFP (bit-exact reinterpretation)"], timeout=dict(quick=400, thorough=900))
def c13_sortable_float(rep):
    import struct as _struct
    # translator validation on boundary vectors through the real (unstubbed) functions
    vals = [0.0, -0.0, 5e-324, -5e-324, 1.0, -1.0, 1.5e308, -1.5e308, float("inf"), float("-inf"), 2.2250738585072014e-308]
    for a in vals:
        for b in vals:
            r = rp_sortable_float(True, _struct.unpack(">Q", _struct.pack(">d", a))[0], _struct.unpack(">Q", _struct.pack(">d", b))[0])
            rep.queries += 1
            if r is not None:
                rep.violation("float sortable vector", "rp_sortable_float(True, %d, %d)" % (_struct.unpack(">Q", _struct.pack(">d", a))[0],
                                                                                           _struct.unpack(">Q", _struct.pack(">d", b))[0]), r)
                return
    W = 72
    eng = Engine(width=W, mode="merge", stubs=_float_stubs(W), timeout_ms=int(rep.timeout * 1000 / 6))
    x, y = z3.FP("x", z3.Float64()), z3.FP("y", z3.Float64())
    pre = [z3.Not(z3.fpIsNaN(x)), z3.Not(z3.fpIsNaN(y))]
    for p in pre:
        eng.solver.add(p)
    try:
        sx = eng.to_term(eng.call(N.float_to_sortable_long, [x, True], {}))
        sy = eng.to_term(eng.call(N.float_to_sortable_long, [y, True], {}))
        back = eng.call(N.sortable_long_to_float, [sx, True], {})
    except Unsupported as e:
        rep.inconclusive("float sortable encode", "pybmc: %s" % e)
        return
    bx, by = z3.fpToIEEEBV(x), z3.fpToIEEEBV(y)
    side = [b for _, b in eng.obligations]
    both_zero = z3.And(z3.fpIsZero(x), z3.fpIsZero(y))
    goals = [
        ("range [0, 2^64)", z3.Or(sx < 0, sx >= (1 << 64))),
        ("order preserved: x < y => s(x) < s(y)", z3.And(z3.fpLT(x, y), z3.Not(sx < sy))),
        ("order reflected: s(x) < s(y) => x < y (or both are zeros)", z3.And(sx < sy, z3.Not(z3.fpLT(x, y)), z3.Not(both_zero))),
        ("injective on bit patterns", z3.And(sx == sy, bx != by)),
        ("round trip is bit-exact", z3.fpToIEEEBV(back) != bx),
    ]
    if side:
        goals.append(("side conditions (asserts, no overflow, pack ranges)", z3.Or(*side)))
    for name, bad in goals:
        r = eng.check(bad)
        tag = "float_to_sortable_long " + name
        if r == z3.unsat:
            rep.held(tag)
        elif r == z3.sat:
            m = eng.last_model
            rep.violation(tag, "rp_sortable_float(True, %d, %d)" % (m.eval(bx, model_completion=True).as_long(), m.eval(by, model_completion=True).as_long()))
        else:
            rep.inconclusive(tag, "solver unknown")
    rep.absorb(eng)
    rep.sample({"function": "float_to_sortable_long", "domain": "all non-NaN doubles"})


# ------------------------------------------------------------------ DATETIME <-> long (E2 pybmc, Int theory)
def rp_datetime_long(d, s, u, d2, s2, u2):
    import datetime as _dt
    from whoosh.util.times import datetime_to_long, long_to_datetime
    try:
        a = _dt.datetime.min + _dt.timedelta(days=d, seconds=s, microseconds=u)
        b = _dt.datetime.min + _dt.timedelta(days=d2, seconds=s2, microseconds=u2)
    except OverflowError:
        return None
    la, lb = datetime_to_long(a), datetime_to_long(b)
    if long_to_datetime(la) != a:
        return "long_to_datetime(datetime_to_long(%r)) = %r" % (a, long_to_datetime(la))
    if (a < b) != (la < lb) or (a == b) != (la == lb):
        return "order not preserved: %r vs %r -> %r vs %r" % (a, b, la, lb)
    return None


@q(bounds="every datetime from datetime.min to datetime.max at microsecond resolution, i.e. every normalised timedelta (0 <= days <= 3652058, 0 <= seconds < 86400, "
          "0 <= microseconds < 10^6) and every long 0 <= x <= 315537897599999999 (mathematical integers, linear arithmetic with division by constants)",
   funcs=["whoosh.util.times.timedelta_to_usecs", "whoosh.util.times.datetime_to_long", "whoosh.util.times.long_to_datetime"],
   stubs=["datetime - datetime.min -> an object with the normalised (days, seconds, microseconds) fields CPython's timedelta documents; "
          "datetime.min + timedelta(days, seconds, microseconds) -> that triple (CPython's exact datetime arithmetic is trusted)"],
   outside="time zones (tzinfo is dropped by datetime_to_long by design), CPython's datetime arithmetic itself")
def c13_datetime_long(rep):
    """The DATETIME field's number encoding: datetime -> microseconds since datetime.min -> datetime is the identity, a bijection onto
    [0, max] and strictly monotone, for every representable datetime."""
    from vk.pybmc import Engine, Unsupported
    from whoosh.util import times as T
    for args in [(0, 0, 0, 0, 0, 1), (3652058, 86399, 999999, 3652058, 86399, 999998), (1, 0, 0, 0, 86399, 999999), (730000, 43200, 500000, 730000, 43200, 500000)]:
        r = rp_datetime_long(*args)
        rep.queries += 1
        if r is not None:
            rep.violation("datetime long vector", "rp_datetime_long%r" % (args,), r)
            return

    class _Min(object):
        def __add__(self, other):
            return other

    class _DT(object):
        min = _Min()

    class _TD(object):
        def __init__(self, d, s, u):
            self.days, self.seconds, self.microseconds = d, s, u

    def td_stub(eng, days=0, seconds=0, microseconds=0):
        return (days, seconds, microseconds)
    eng = Engine(width=0, mode="fork", stubs={T.timedelta: td_stub}, timeout_ms=60000)
    d, s, u, d2, s2, u2, x = [eng.sym_int(n) for n in ("d", "s", "u", "d2", "s2", "u2", "x")]
    MAXD, MAXX = 3652058, 315537897599999999
    norm = [d >= 0, d <= MAXD, s >= 0, s < 86400, u >= 0, u < 1000000]
    norm2 = [d2 >= 0, d2 <= MAXD, s2 >= 0, s2 < 86400, u2 >= 0, u2 < 1000000]
    saved = T.datetime
    T.datetime = _DT
    try:
        enc_paths = list(eng.paths(T.timedelta_to_usecs, [_TD(d, s, u)], pre=norm))
        dec_paths = list(eng.paths(T.long_to_datetime, [x], pre=[x >= 0, x <= MAXX]))
    except Unsupported as e:
        rep.inconclusive("datetime long", "pybmc: %s" % e)
        return
    finally:
        T.datetime = saved
    if len(enc_paths) != 1 or len(dec_paths) != 1:
        rep.inconclusive("datetime long", "expected straight-line code, got %d/%d paths" % (len(enc_paths), len(dec_paths)))
        return
    E = eng.to_term(enc_paths[0][1])
    D = tuple(eng.to_term(t) for t in dec_paths[0][1])
    E2 = z3.substitute(E, (d, d2), (s, s2), (u, u2))
    Dx = tuple(z3.substitute(t, (x, E)) for t in D)
    lex_lt = z3.Or(d < d2, z3.And(d == d2, s < s2), z3.And(d == d2, s == s2, u < u2))
    EofD = z3.substitute(E, (d, D[0]), (s, D[1]), (u, D[2]))
    side = [o for _, o in eng.obligations]
    obligations = [
        ("long_to_datetime(datetime_to_long(t)) == t", norm, z3.Or(Dx[0] != d, Dx[1] != s, Dx[2] != u)),
        ("0 <= datetime_to_long(t) <= max", norm, z3.Or(E < 0, E > MAXX)),
        ("strictly monotone", norm + norm2 + [lex_lt], E >= E2),
        ("long_to_datetime(x) is a normalised, representable value", [x >= 0, x <= MAXX], z3.Or(D[0] < 0, D[0] > MAXD, D[1] < 0, D[1] >= 86400, D[2] < 0, D[2] >= 1000000)),
        ("datetime_to_long(long_to_datetime(x)) == x", [x >= 0, x <= MAXX], EofD != x),
    ]
    if side:
        obligations.append(("side obligations of the encoding", norm + [x >= 0, x <= MAXX], z3.Or(*side)))
    bad = 0
    for name, pre, neg in obligations:
        r = eng.check(*(list(pre) + [neg]))
        if r == z3.unsat:
            continue
        bad += 1
        if r == z3.sat:
            m = eng.last_model
            vals = [m.eval(v, model_completion=True).as_long() for v in (d, s, u, d2, s2, u2)]
            rep.violation("datetime long: " + name, "rp_datetime_long(%d, %d, %d, %d, %d, %d)" % tuple(vals))
        else:
            rep.inconclusive("datetime long: " + name, "unknown")
    # vacuity guard: without the normalisation of seconds the round trip must fail
    r = eng.check(d >= 0, s >= 86400, u >= 0, u < 1000000, z3.Or(Dx[0] != d, Dx[1] != s, Dx[2] != u))
    if r != z3.sat:
        rep.inconclusive("datetime long vacuity guard", "expected sat for unnormalised seconds, got %s" % r)
        bad += 1
    rep.absorb(eng)
    if not bad:
        rep.held("datetime <-> long: identity both ways, range, strict monotonicity: %d obligations" % len(obligations))
    rep.sample({"function": "datetime_to_long/long_to_datetime", "obligations": len(obligations)})
