"""C01-H1 (array unions): ArrayUnionMatcher / PreloadedUnionMatcher vs list algebra (E1).

These classes index array('d') buffers by document number; CrossHair's SymbolicArray model made
the paths inexhaustive ("Not confirmed"), so arrays stay concrete here and the engine case-splits
the (small) id space completely: exhaustive inside the bound, no symbolic leverage."""
from typing import List, Optional

from vk.prelude import h, tick, asc, tiered, concrete_arrays
from harness.c01_algebra import leaf, both, o_union, F
from whoosh.matching import ArrayUnionMatcher, PreloadedUnionMatcher

concrete_arrays()
NI2 = 2
NC3 = tiered(0, 1)
ND2 = tiered(5, 6)


@h(bounds="3 submatchers ids<=2,2,0<5 (thorough 2,2,1<6), partsize 1..3, doccount ND2", funcs=F + ["whoosh.matching.combo.ArrayUnionMatcher"],
   examples=[dict(a=[1, 3], b=[0, 3], c=[], part=2)], timeout=dict(quick=450, thorough=2400))
def c01_arrayunion(a: List[int], b: List[int], c: List[int], part: int) -> Optional[str]:
    """
    pre: asc(a, NI2, ND2) and asc(b, NI2, ND2) and asc(c, NC3, ND2) and 1 <= part <= 3
    post: _ is None
    """
    oracle = o_union(o_union(a, b), c)
    r = both(lambda: ArrayUnionMatcher([leaf(a), leaf(b), leaf(c)], ND2, partsize=part), oracle)
    tick(len(a) > 0 and len(b) > 0)
    return r


@h(bounds="3 submatchers ids<=2,2,0<5 (thorough 2,2,1<6), doccount ND2", funcs=F + ["whoosh.matching.combo.PreloadedUnionMatcher"],
   examples=[dict(a=[1, 3], b=[0, 3], c=[])], timeout=dict(quick=450, thorough=2400))
def c01_preloaded(a: List[int], b: List[int], c: List[int]) -> Optional[str]:
    """
    pre: asc(a, NI2, ND2) and asc(b, NI2, ND2) and asc(c, NC3, ND2)
    post: _ is None
    """
    oracle = o_union(o_union(a, b), c)
    r = both(lambda: PreloadedUnionMatcher([leaf(a), leaf(b), leaf(c)], ND2), oracle)
    tick(len(a) > 0 and len(b) > 0)
    return r


