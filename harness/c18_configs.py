"""C18: storage back-ends and writer front-ends are interchangeable (E1, symbolic configuration codes).

The C06 operation list is executed under a symbolic configuration (storage kind, segment packing,
copy_to_ram, writer front-end with its parameters, commit cut mask); the canonical dump must equal the
baseline (RamStorage, plain writer).  MpWriter sub-processes run outside any tracing; their timing is
whatever the OS does (one schedule per configuration) - stated as outside the claim."""
import os
import random
import shutil
import tempfile
from typing import Optional

from vk.prelude import THOROUGH, h, tick, tiered, concrete_arrays, notrace, sym_true
from harness.c06_layout import OPS, FORCED, schema, apply_op, full_dump, diff, baseline, has_deletes, pick
from whoosh import writing, index as windex
from whoosh.filedb.filestore import RamStorage, FileStorage, copy_to_ram
from whoosh.codec.whoosh3 import W3Codec

concrete_arrays()

STORAGES = ["ram", "file-mmap", "file-nommap"]
_CLEARBASE = {}
FRONTENDS = ["segment", "segment-loose", "buffered-1", "buffered-2", "buffered-4", "async-free", "async-contended",
             "mp-2procs", "mp-2procs-batch1", "mp-3procs-multisegment", "buffered-1-deletelast", "buffered-2-deletelast", "buffered-3-deletelast",
             # a temporary document is added and deleted again while it is still in the buffer, with further documents buffered behind it
             "buffered-9-tmpdoc", "buffered-3-tmpdoc",
             # the final commit carries mergetype=CLEAR (a document-level effect: only this writer's documents remain); the AsyncWriter must
             # pass the arguments of commit() on whether it got the lock at once or commits later from its retry thread (seed C18-5)
             "async-free-clear", "async-contended-clear"]
TMPDOC = dict(k=u"tmp", t=u"tango alfa", g=u"red", n=99, kind=u"doc", cc=99)
NFE = len(FRONTENDS)


def make_storage(kind, tmp):
    if kind == "ram":
        return RamStorage()
    d = tempfile.mkdtemp(prefix="vkc18-")
    tmp.append(d)
    return FileStorage(d, supports_mmap=(kind == "file-mmap"))


def run_config(skind, fe, cutmask, to_ram):
    base = baseline(OPS, "std")
    random.seed(13)
    tmp = []
    try:
        st = make_storage(skind, tmp)
        ix = st.create_index(schema())
        cutmask |= 1 << FORCED
        name = FRONTENDS[fe]
        # the first (forced) part always goes through a plain writer so that the documents that are deleted
        # later are committed; the rest goes through the front-end under test
        w = ix.writer()
        for op in OPS[:FORCED + 1]:
            apply_op(w, op)
        w.commit()
        rest = OPS[FORCED + 1:]
        if name.endswith("deletelast"):
            # the (independent) deletions are issued last: depending on the limit the buffer is empty when they arrive,
            # so close() has deletions but no buffered documents to commit
            rest = [op for op in rest if op[0] != "delete"] + [op for op in rest if op[0] == "delete"]
        if name.endswith("tmpdoc"):
            rest = [("add", TMPDOC)] + rest[:1] + [("delete", u"tmp")] + rest[1:]
        if name.startswith("buffered"):
            limit = int(name.split("-")[1])
            bw = writing.BufferedWriter(ix, period=None, limit=limit)
            try:
                for i, op in enumerate(rest):
                    kind, payload = op
                    if kind == "add":
                        bw.add_document(**payload)
                    elif kind == "delete":
                        bw.delete_by_term("k", payload)
                    elif kind == "update":
                        bw.update_document(**payload)
                    elif kind == "group":
                        for d in payload:
                            bw.add_document(**d)
                    # the buffered writer's own searcher sees committed + buffered documents
                    with bw.searcher() as s:
                        seen = sorted(hit["k"] for hit in s.search(__import__("whoosh").query.Every(), limit=None))
                    want = _model_keys(OPS[:FORCED + 1] + rest[:i + 1])
                    if seen != want:
                        return "%s on %s: BufferedWriter.searcher() after %d operations sees %r, expected %r" % (name, skind, i + 1, seen, want)
            finally:
                bw.close()
        elif name.startswith("async"):
            blocker = None
            ckw = {}
            if name.endswith("clear"):
                ckw = dict(mergetype=writing.CLEAR)
                rest = [op for op in rest if op[0] in ("add", "group")]      # (CLEAR drops the old segments, so only additions are meaningful)
                key = "clear"
                if key not in _CLEARBASE:
                    st0 = RamStorage()
                    ix0 = st0.create_index(schema())
                    w0 = ix0.writer()
                    for op in OPS[:FORCED + 1]:
                        apply_op(w0, op)
                    w0.commit()
                    w0 = ix0.writer()
                    for op in rest:
                        apply_op(w0, op)
                    w0.commit(mergetype=writing.CLEAR)
                    _CLEARBASE[key] = full_dump(ix0, with_stats=False)
                base = _CLEARBASE[key]
            if "contended" in name:
                blocker = ix.writer()
            aw = writing.AsyncWriter(ix, delay=0.01)
            for op in rest:
                apply_op(aw, op)
            if blocker is not None:
                aw.commit(**ckw)            # buffered: starts retrying in its thread
                blocker.cancel()
                aw.join(30)
                if aw.is_alive():
                    return "%s on %s: AsyncWriter thread did not finish" % (name, skind)
            else:
                aw.commit(**ckw)
        elif name.startswith("mp"):
            if skind == "ram":
                return None      # sub-processes cannot share a RamStorage: MpWriter needs a directory
            from whoosh.multiproc import MpWriter
            procs = 3 if "3procs" in name else 2
            kw = dict(procs=procs, multisegment=("multisegment" in name))
            if "batch1" in name:
                kw["batchsize"] = 1
            w = ix.writer(**kw)
            if not isinstance(w, MpWriter):
                return "%s: ix.writer(procs=%d) did not return an MpWriter" % (name, procs)
            for op in rest:
                apply_op(w, op)
            w.commit()
        else:
            compound = name == "segment"
            w = None
            for i, op in enumerate(rest):
                if w is None:
                    w = ix.writer(compound=compound, codec=W3Codec(blocklimit=2))
                apply_op(w, op)
                gi = FORCED + 1 + i
                if gi == len(OPS) - 1 or (cutmask >> gi) & 1:
                    w.commit()
                    w = None
        if to_ram and skind != "ram":
            ram = copy_to_ram(st)
            ix = ram.open_index()
        else:
            ix = st.open_index()
        got = full_dump(ix, with_stats=False)
        if name.startswith("buffered"):
            # BufferedWriter has no group API: the members are added one by one and may be flushed into different
            # segments, so adjacency of the second group (and the nested query that relies on it) is not promised
            got = dict(got)
            base = dict(base)
            for key in ("group 2 adjacent", "nested parent"):
                got.pop(key, None)
                base.pop(key, None)
        d = diff(got, base)
        if d:
            return "%s on %s%s cuts=%s: %s" % (name, skind, " copied to RAM" if to_ram else "", bin(cutmask), d)
        return None
    finally:
        for d_ in tmp:
            shutil.rmtree(d_, ignore_errors=True)


def _model_keys(ops):
    live = []
    for kind, payload in ops:
        if kind == "add":
            live.append(payload["k"])
        elif kind == "group":
            live += [d["k"] for d in payload]
        elif kind == "delete":
            live = [k for k in live if k != payload]
        elif kind == "update":
            live = [k for k in live if k != payload["k"]] + [payload["k"]]
    return sorted(live)


FUNCS = ["whoosh.filedb.filestore.FileStorage", "whoosh.filedb.filestore.RamStorage", "whoosh.filedb.filestore.copy_to_ram",
         "whoosh.filedb.compound.CompoundStorage", "whoosh.writing.BufferedWriter", "whoosh.writing.AsyncWriter", "whoosh.multiproc.MpWriter",
         "whoosh.multiproc.SubWriterTask", "whoosh.codec.memory.MemoryCodec"]


@h(bounds="C06's operation list under every storage in {RamStorage, FileStorage mmap on/off} x front-end in %r x copy_to_ram x cut masks of the plain writer; "
          "BufferedWriter.searcher() checked after every buffered operation" % (FRONTENDS,),
   funcs=FUNCS, examples=[dict(st=0, fe=0, cut=3, ram=False), dict(st=1, fe=3, cut=0, ram=True)], timeout=dict(quick=900, thorough=3000),
   outside="timings of MpWriter sub-processes, of the AsyncWriter retry thread beyond the one contended/uncontended pair, and of BufferedWriter's flush timer "
           "(period=None here); corpora other than the fixed operation list",
   stubs=["multiprocessing sub-writers run as real OS processes outside tracing: one OS schedule per configuration"])
def c18_configs(st: int, fe: int, cut: int, ram: bool) -> Optional[str]:
    """
    pre: 0 <= st < 3 and 0 <= fe < NFE and 0 <= cut < NCUTS
    post: _ is None
    """
    with notrace():
        f = pick(fe, NFE)
        s_ = pick(st, 3)
        c = pick(cut, NCUTS) if f < 2 else 0
        r = run_config(STORAGES[s_], f, (c << (FORCED + 1)), sym_true(lambda: ram))
    tick(True)
    return r


NCUTS = 2 ** (len(OPS) - 1 - (FORCED + 1))
