"""C11: every matcher is a faithful forward cursor over one fixed ascending list (E1).

Matchers are obtained from real queries (vk.corpus leaf table x operators) on real segments
(blocklimit=2, with and without deletions, single segments and the multi-segment reader); a symbolic
program of cursor operations is run and after every step the matcher is compared with the reference
list L obtained by fresh next()-stepping.  Query codes, program codes and skip targets are symbolic."""
from typing import List, Optional

from vk.prelude import THOROUGH, h, tick, tiered, concrete_arrays, notrace, sym_true
from vk import corpus as C
from whoosh import query, scoring, matching
from whoosh.matching import mcore

concrete_arrays()

LEAVES = C.leaves()
LSEL = list(range(len(LEAVES))) if THOROUGH else [0, 1, 2, 6, 9, 11, 12, 16, 18, 19, 21]
NSEL = len(LSEL)
NOPS = len(C.OPS)
PL = 2                       # program length
TG = [2, 5, 7, 0, 9]        # skip targets (quick uses the first 3)
NT = tiered(3, 5)
STEPS = ["next", "skip_to(t)", "skip_to(current or earlier)", "skip_to_quality(0)", "replace(0)", "copy+advance copy", "reset"]
NSTEP = len(STEPS)
_S = {}


def contexts():
    """(name, searcher) pairs: whole readers of three layouts plus their individual segments"""
    if not _S:
        for name in ("one", "del", "three"):
            ix = C.build_layout(name)
            s = ix.searcher()
            _S[name] = s
            if name != "one":
                for i, (ss, off) in enumerate(s.leaf_searchers()):
                    _S["%s/seg%d" % (name, i)] = ss
    return _S


def pick(x, n):
    for v in range(n - 1):
        if sym_true(lambda: x == v):
            return v
    return n - 1


def items(m):
    out = []
    n = 0
    while m.is_active():
        out.append((m.id(), round(m.score(), 9)))
        m.next()
        n += 1
        if n > 100:
            raise Exception("matcher does not terminate")
    return out


def read(m):
    return (m.id(), round(m.score(), 9))


def run_program(q, desc, prog, targets):
    trivial = True
    for cname, s in contexts().items():
        try:
            L = items(q.matcher(s))
        except Exception as e:  # noqa
            return "%s on %s: stepping raised %s: %s" % (desc, cname, type(e).__name__, e), False
        ids = [i for i, _ in L]
        if ids != sorted(set(ids)):
            return "%s on %s: ids not strictly ascending: %r" % (desc, cname, ids), False
        try:
            got_all = list(q.matcher(s).all_ids())
        except Exception as e:  # noqa
            return "%s on %s: all_ids() raised %s: %s" % (desc, cname, type(e).__name__, e), False
        if got_all != ids:
            return "%s on %s: all_ids() %r != stepping %r" % (desc, cname, got_all, ids), False
        if len(L) > 1:
            trivial = False
        m = q.matcher(s)
        cur = 0
        trace = []
        replaced = False
        single = s.reader().is_atomic()
        for stepno, (st, t) in enumerate(zip(prog, targets)):
            name = STEPS[st]
            trace.append(name if st not in (1, 2) else "%s t=%s" % (name, t))
            where = "%s on %s after %r" % (desc, cname, trace)
            try:
                if st == 0:
                    if cur >= len(L):
                        break
                    m.next()
                    cur += 1
                elif st == 1:
                    if cur >= len(L):
                        break
                    m.skip_to(t)
                    while cur < len(L) and L[cur][0] < t:
                        cur += 1
                elif st == 2:
                    if cur >= len(L):
                        break
                    m.skip_to(max(0, L[cur][0] - t % 3))
                elif st == 3:
                    # (matchers over a multi-segment reader claim block quality but MultiMatcher has no
                    # skip_to_quality: known finding KF-C11-2; the collectors only use per-segment matchers)
                    if cur >= len(L) or not m.supports_block_quality() or not single:
                        continue
                    m.skip_to_quality(0)
                elif st == 4:
                    m = m.replace(0)
                    replaced = True
                elif st == 5:
                    # copy(): W3LeafMatcher does not implement it (known finding KF-C11-1), so only trees
                    # without on-disk leaves can be copied; attempt it and skip the step when unsupported
                    try:
                        c = m.copy()
                    except NotImplementedError:
                        continue
                    if c.is_active():
                        c.next()
                        if c.is_active():
                            c.next()
                elif st == 6:
                    if replaced:
                        continue     # a replacement only promises the *remaining* list
                    try:
                        m.reset()
                    except NotImplementedError:
                        continue     # array/preloaded unions have no reset(): part of KF-C11-1
                    cur = 0
            except mcore.ReadTooFar:
                return "%s: ReadTooFar although the reference list has %d more entries" % (where, len(L) - cur), True
            except Exception as e:  # noqa
                return "%s: raised %s: %s" % (where, type(e).__name__, e), True
            act = m.is_active()
            if act != (cur < len(L)):
                return "%s: is_active()=%s, reference position %d of %d" % (where, act, cur, len(L)), True
            if act:
                try:
                    got = read(m)
                except Exception as e:  # noqa
                    return "%s: reading id/score raised %s: %s" % (where, type(e).__name__, e), True
                if got != L[cur]:
                    return "%s: at %r, reference entry %r (list %r)" % (where, got, L[cur], L), True
        # the remaining list is still intact
        try:
            rest = items(m)
        except Exception as e:  # noqa
            return "%s on %s after %r: finishing raised %s: %s" % (desc, cname, trace, type(e).__name__, e), True
        if rest != L[cur:]:
            return "%s on %s after %r: remaining %r, reference %r" % (desc, cname, trace, rest, L[cur:]), True
    return None, not trivial


FUNCS = ["whoosh.matching.mcore.*", "whoosh.matching.binary.*", "whoosh.matching.wrappers.*", "whoosh.matching.combo.*",
         "whoosh.codec.whoosh3.W3LeafMatcher", "whoosh.query.spans.*"]


def _mk(op):
    name = "c11_prog_" + "".join(ch if ch.isalnum() else "_" for ch in C.OPS[op][0]).strip("_").lower()

    @h(bounds="matchers of %s(a, b), a, b over %d leaves (quick) on 3 layouts + their segments; every program of %d steps over {next, skip_to(t), "
              "skip_to(<=current), skip_to_quality(0), replace(0), copy+advance copy, reset}, skip targets from {2,5,7} (thorough {2,5,7,0,9}) and derived; id, score, activity and the "
              "remaining list compared with fresh stepping after every step" % (C.OPS[op][0], NSEL, PL),
       funcs=FUNCS, examples=[dict(a=0, b=1, prog=[0, 1, 4][:PL] + [0] * max(0, PL - 3), t=1)], timeout=dict(quick=900, thorough=3000),
       outside="programs longer than the bound, span matchers' spans(), matchers of nested-document queries")
    def harness(a: int, b: int, prog: List[int], t: int) -> Optional[str]:
        """
        pre: 0 <= a < AB and 0 <= b < AB and len(prog) == PL and 0 <= t < NT
        pre: all(0 <= p < NSTEP for p in prog)
        post: _ is None
        """
        with notrace():
            from harness.c07_model import sym_true_idx
            ai, bi = SUB[pick(a, AB)], SUB[pick(b, AB)]
            pr = [pick(sym_true_idx(prog, i), NSTEP) for i in range(PL)]
            tt = TG[pick(t, NT)]
            la, lb = LEAVES[ai], LEAVES[bi]
            o = C.OPS[op]
            q = o[1](la[1](), lb[1]())
            r = run_program(q, "%s(%s, %s)" % (o[0], la[0], lb[0]), pr, [tt, (tt + 3) % 10, (tt + 5) % 10, tt][:PL])
        if isinstance(r, tuple) and r[0] is None:
            tick(r[1])
            return None
        tick(True)
        return r[0] if isinstance(r, tuple) else r
    harness.__name__ = harness.__qualname__ = name
    return name, harness


# quick: 4 leaves per operand (term, multi-term range, numeric range, Every); thorough: 5 (+ phrase)
SUB = [0, 9, 12, 16] if not THOROUGH else [0, 9, 12, 16, 18]
AB = len(SUB)
for _op in range(NOPS):
    _n, _f = _mk(_op)
    globals()[_n] = _f


@h(bounds="matcher of every leaf of the table alone; programs of %d steps as above" % PL, funcs=FUNCS,
   examples=[dict(a=0, prog=[0, 1, 4][:PL] + [0] * max(0, PL - 3), t=1)], timeout=dict(quick=900, thorough=3000))
def c11_leaf(a: int, prog: List[int], t: int) -> Optional[str]:
    """
    pre: 0 <= a < NLEAF and len(prog) == PL and 0 <= t < NT
    pre: all(0 <= p < NSTEP for p in prog)
    post: _ is None
    """
    with notrace():
        from harness.c07_model import sym_true_idx
        ai = pick(a, NLEAF)
        pr = [pick(sym_true_idx(prog, i), NSTEP) for i in range(PL)]
        tt = TG[pick(t, NT)]
        r = run_program(LEAVES[ai][1](), LEAVES[ai][0], pr, [tt, (tt + 3) % 10, (tt + 5) % 10, tt][:PL])
    if isinstance(r, tuple) and r[0] is None:
        tick(r[1])
        return None
    tick(True)
    return r[0] if isinstance(r, tuple) else r


NLEAF = len(LEAVES)


@h(bounds="witness of known finding KF-C11-1 (concrete): copy() of a term matcher over on-disk postings", funcs=FUNCS, examples=[],
   timeout=dict(quick=60, thorough=60))
def c11_kf_copy(k: int) -> Optional[str]:
    """
    pre: k == 0
    post: _ is None
    """
    with notrace():
        s = contexts()["one"]
        m = query.Term("t", u"alfa").matcher(s)
        try:
            c = m.copy()
            c.next()
            r = None if m.id() == 0 else "copy is not independent"
        except NotImplementedError as e:
            r = "KF-C11-1 witness: copy() raised NotImplementedError for %r" % (m,)
    tick(True)
    return r


@h(bounds="witness of known finding KF-C11-2 (concrete): skip_to_quality on a term matcher over a multi-segment reader", funcs=FUNCS,
   examples=[], timeout=dict(quick=60, thorough=60))
def c11_kf_multi_quality(k: int) -> Optional[str]:
    """
    pre: k == 0
    post: _ is None
    """
    with notrace():
        s = contexts()["three"]
        m = query.Term("t", u"alfa").matcher(s)
        r = None
        if m.supports_block_quality():
            try:
                m.skip_to_quality(0)
            except NotImplementedError:
                r = "KF-C11-2 witness: %s reports supports_block_quality() but skip_to_quality raised NotImplementedError" % type(m).__name__
    tick(True)
    return r
