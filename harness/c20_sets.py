"""C20-H3/H4: doc-id sets, compound files, external sort, hash files as abstract data types (E1).

Symbolic codes choose the initial content (from patterns around byte/word boundaries), the operations
and their arguments; the real classes run natively and are compared with python sets / sorted lists /
dicts after every operation."""
import io
import random
from typing import List, Optional

from vk.prelude import THOROUGH, h, tick, tiered, concrete_arrays, notrace, sym_true
from whoosh import idsets
from whoosh.filedb.structfile import StructFile
from whoosh.filedb.compound import CompoundStorage
from whoosh.filedb.filestore import RamStorage
from whoosh.filedb import filetables
from whoosh.externalsort import SortingPool

concrete_arrays()

U = [0, 1, 2, 7, 8, 9, 15, 16, 17, 31]          # universe: around byte boundaries
PATTERNS = [[], [0], [1], [0, 1], [7], [8], [0, 7, 8], [7, 8, 9], [15, 16], [0, 31], [2, 9, 17], [0, 1, 2, 7, 8, 9, 15, 16, 17, 31],
            [16], [31], [1, 15, 17], [0, 8, 16]]
NP = len(PATTERNS)
LIMIT = 33


def pick(x, n):
    for v in range(n - 1):
        if sym_true(lambda: x == v):
            return v
    return n - 1


def mk(kind, items):
    items = sorted(items)
    if kind == "BitSet":
        return idsets.BitSet(items)
    if kind == "SortedIntSet":
        return idsets.SortedIntSet(items)
    if kind == "OnDiskBitSet":
        bs = idsets.BitSet(items, size=LIMIT)
        f = StructFile(io.BytesIO())
        f.write(b"xyz")                      # non-zero base position
        bs.to_disk(f)
        f.seek(0)
        return idsets.OnDiskBitSet(f, 3, bs.byte_count())
    if kind == "ReverseIdSet":
        # represents the complement (within LIMIT) of the wrapped set
        return idsets.ReverseIdSet(idsets.BitSet([i for i in range(LIMIT) if i not in items], size=LIMIT), LIMIT)
    if kind == "RoaringIdSet":
        return idsets.RoaringIdSet(items)
    if kind == "MultiIdSet":
        # three sub-sets whose offsets (7, 15) are ids of the universe, so a sub-set can hold its local id 0 (seed C20-4)
        lo = [i for i in items if i < 7]
        mid = [i - 7 for i in items if 7 <= i < 15]
        hi = [i - 15 for i in items if i >= 15]
        return idsets.MultiIdSet([idsets.BitSet(lo, size=7), idsets.SortedIntSet(mid), idsets.SortedIntSet(hi)], [0, 7, 15])
    raise ValueError(kind)


MUTABLE = {"BitSet": True, "SortedIntSet": True, "OnDiskBitSet": False, "ReverseIdSet": True, "RoaringIdSet": True, "MultiIdSet": False}
OPS = ["none", "add x", "discard x", "update P", "intersection_update P", "difference_update P", "union P", "intersection P", "difference P",
       "invert_update(LIMIT)", "invert(LIMIT)", "copy then add x to the copy", "a | P", "a & P", "a - P"]
NOP = len(OPS)


def observe(s, model, where):
    try:
        lst = list(s)
    except Exception as e:  # noqa
        return "%s: iteration raised %s: %s" % (where, type(e).__name__, e)
    want = sorted(model)
    if lst != want:
        return "%s: iterates %r, model %r" % (where, lst, want)
    if len(s) != len(want):
        return "%s: len %d, model %d" % (where, len(s), len(want))
    if bool(s) != bool(want):
        return "%s: bool %r, model has %d members" % (where, bool(s), len(want))
    for x in range(0, LIMIT + 2):
        if (x in s) != (x in model):
            return "%s: %d in set = %r, model %r" % (where, x, x in s, x in model)
    try:
        if want:
            if s.first() != want[0] or s.last() != want[-1]:
                return "%s: first/last %r/%r, model %r/%r" % (where, s.first(), s.last(), want[0], want[-1])
        for x in range(0, LIMIT + 1):
            b = s.before(x)
            wb = max([y for y in want if y < x] or [None], key=lambda v: -1 if v is None else v)
            if b != wb:
                return "%s: before(%d) = %r, model %r" % (where, x, b, wb)
            a = s.after(x)
            wa = min([y for y in want if y > x] or [None], key=lambda v: 10 ** 9 if v is None else v)
            if a != wa:
                return "%s: after(%d) = %r, model %r" % (where, x, a, wa)
    except NotImplementedError:
        pass
    return None


def run_sets(kind, pat, op, x, pat2, okind):
    items = set(PATTERNS[pat])
    other_items = set(PATTERNS[pat2])
    try:
        s = mk(kind, items)
    except Exception as e:  # noqa
        return "%s(%r) construction raised %s: %s" % (kind, sorted(items), type(e).__name__, e)
    model = set(items)
    where = "%s%r" % (kind, sorted(items))
    err = observe(s, model, where)
    if err:
        return err
    if op == 0:
        return None
    name = OPS[op]
    xv = U[x]
    other = mk(okind, other_items)
    where += " after %s (x=%d, P=%s%r)" % (name, xv, okind, sorted(other_items))
    res, resmodel = None, None
    try:
        if name == "add x":
            if not MUTABLE[kind]:
                return None
            s.add(xv)
            model.add(xv)
        elif name == "discard x":
            if not MUTABLE[kind]:
                return None
            s.discard(xv)
            model.discard(xv)
        elif name == "update P":
            if not MUTABLE[kind]:
                return None
            s.update(other)
            model |= other_items
        elif name == "intersection_update P":
            if not MUTABLE[kind]:
                return None
            s.intersection_update(other)
            model &= other_items
        elif name == "difference_update P":
            if not MUTABLE[kind]:
                return None
            s.difference_update(other)
            model -= other_items
        elif name == "union P":
            res, resmodel = s.union(other), model | other_items
        elif name == "intersection P":
            res, resmodel = s.intersection(other), model & other_items
        elif name == "difference P":
            res, resmodel = s.difference(other), model - other_items
        elif name == "invert_update(LIMIT)":
            if not MUTABLE[kind]:
                return None
            s.invert_update(LIMIT)
            model = set(range(LIMIT)) - model
        elif name == "invert(LIMIT)":
            res, resmodel = s.invert(LIMIT), set(range(LIMIT)) - model
        elif name == "copy then add x to the copy":
            c = s.copy()
            if MUTABLE[kind]:
                c.add(xv)
                res, resmodel = c, model | set([xv])
            else:
                res, resmodel = c, set(model)
        elif name == "a | P":
            res, resmodel = s | other, model | other_items
        elif name == "a & P":
            res, resmodel = s & other, model & other_items
        elif name == "a - P":
            res, resmodel = s - other, model - other_items
    except NotImplementedError:
        return None
    except Exception as e:  # noqa
        return "%s: raised %s: %s" % (where, type(e).__name__, e)
    err = observe(s, model, where + " [receiver]")
    if err:
        return err
    if res is not None:
        err = observe(res, resmodel, where + " [result]")
        if err:
            return err
    err = observe(other, other_items, where + " [argument must be unchanged]")
    return err


FUNCS = ["whoosh.idsets.BitSet", "whoosh.idsets.BaseBitSet", "whoosh.idsets.OnDiskBitSet", "whoosh.idsets.SortedIntSet", "whoosh.idsets.ReverseIdSet",
         "whoosh.idsets.RoaringIdSet", "whoosh.idsets.MultiIdSet", "whoosh.idsets.DocIdSet"]
# RoaringIdSet (unused, experimental) fails on construction/add for most inputs: known finding KF-C20-1
KINDS = ["BitSet", "SortedIntSet", "OnDiskBitSet", "ReverseIdSet", "MultiIdSet"]
OK = ["BitSet", "SortedIntSet"]


def _mk(kind):
    name = "c20_idset_" + kind.lower()

    @h(bounds="%s: initial content from %d patterns over ids {0,1,2,7,8,9,15,16,17,31}, one operation of %d kinds with argument x from that universe and "
              "operand set P (a BitSet or SortedIntSet) from the patterns; membership for 0..34, iteration, len, bool, first/last, before/after(0..33) of "
              "receiver, result and operand compared with python sets" % (kind, NP, NOP),
       funcs=FUNCS, examples=[dict(pat=6, op=1, x=3, pat2=7, ok=0), dict(pat=0, op=9, x=0, pat2=0, ok=1)], timeout=dict(quick=900, thorough=3000),
       outside="ids beyond 33, sequences of more than one mutation")
    def harness(pat: int, op: int, x: int, pat2: int, ok: int) -> Optional[str]:
        """
        pre: 0 <= pat < NP and 0 <= op < NOP and 0 <= x < NX and 0 <= pat2 < NP2 and 0 <= ok < 2
        post: _ is None
        """
        with notrace():
            o = pick(op, NOP)
            r = run_sets(kind, pick(pat, NP), o, pick(x, NX) if o in (1, 2, 11) else 0, pick(pat2, NP2) if o not in (0, 1, 2, 9, 10, 11) else 0,
                         OK[pick(ok, 2)] if o not in (0, 1, 2, 9, 10, 11) else "BitSet")
        tick(o != 0)
        return r
    harness.__name__ = harness.__qualname__ = name
    return name, harness


NX = len(U)
NP2 = tiered(8, NP)
for _k in KINDS:
    _n, _f = _mk(_k)
    globals()[_n] = _f


# ------------------------------------------------------------------ compound files
def run_compound(bufsize, lens, chunk_codes):
    """members with the given lengths written in interleaved chunks through CompoundWriter, then read back"""
    from whoosh.filedb.compound import CompoundWriter
    random.seed(21)
    st = RamStorage()
    tmp = RamStorage()
    data = {}
    names = ["a.x", "b.y", "c"][:len(lens)]
    for n, ln in zip(names, lens):
        data[n] = bytes(bytearray((i * 7 + len(n)) % 251 for i in range(ln)))
    cw = CompoundWriter(tmp, buffersize=bufsize)
    files = dict((n, cw.create_file(n)) for n in names)
    pos = dict((n, 0) for n in names)
    # interleave: chunk sizes cycle through chunk_codes
    i = 0
    active = list(names)
    while active:
        n = active[i % len(active)]
        c = chunk_codes[i % len(chunk_codes)] + 1
        files[n].write(data[n][pos[n]:pos[n] + c])
        pos[n] += c
        if pos[n] >= len(data[n]):
            files[n].close()
            active.remove(n)
        i += 1
        if i > 10000:
            return "writer loop did not terminate"
    cw.save_as_compound(st.create_file("out.seg"))
    cs = CompoundStorage(st.open_file("out.seg"), use_mmap=False)
    if sorted(cs.list()) != sorted(names):
        return "bufsize=%d lens=%r: list() = %r" % (bufsize, lens, sorted(cs.list()))
    for n in names:
        if cs.file_length(n) != len(data[n]):
            return "bufsize=%d lens=%r chunks=%r: file_length(%s) = %d, written %d" % (bufsize, lens, chunk_codes, n, cs.file_length(n), len(data[n]))
        f = cs.open_file(n)
        got = f.read()
        if got != data[n]:
            return "bufsize=%d lens=%r chunks=%r: member %s reads back %r, written %r" % (bufsize, lens, chunk_codes, n, got[:40], data[n][:40])
        f.seek(1)
        if len(data[n]) > 2 and (f.read(2) != data[n][1:3] or f.tell() != 3):
            return "bufsize=%d: seek/read/tell arithmetic wrong on %s" % (bufsize, n)
    return None


BUFS = tiered([1, 3, 4, 8], [1, 2, 3, 4, 5, 8])
CLENS = tiered([0, 1, 5, 9], [0, 1, 9, 20])
NCH = tiered(3, 4)
NBUF, NLEN = len(BUFS), len(CLENS)


@h(bounds="CompoundWriter buffer size in %r, 1..3 member files of lengths from %r, written in interleaved chunks whose sizes alternate between 2 "
          "symbolic values in 1..%d; every member read back byte-identical; list/file_length/seek/tell" % (BUFS, CLENS, NCH),
   funcs=["whoosh.filedb.compound.CompoundWriter", "whoosh.filedb.compound.CompoundStorage", "whoosh.filedb.compound.SubFile"],
   examples=[dict(buf=2, n=2, l1=2, l2=3, l3=0, c1=0, c2=2)], timeout=dict(quick=900, thorough=3000),
   outside="member files larger than 20 bytes, mmap-backed reading (checked end-to-end in C18)")
def c20_compound(buf: int, n: int, l1: int, l2: int, l3: int, c1: int, c2: int) -> Optional[str]:
    """
    pre: 0 <= buf < NBUF and 1 <= n <= 3 and 0 <= l1 < NLEN and 0 <= l2 < NLEN and 0 <= l3 < NLEN
    pre: 0 <= c1 < NCH and 0 <= c2 < NCH
    post: _ is None
    """
    n0 = n - 1
    with notrace():
        nn = pick(n0, 3) + 1
        ls = [CLENS[pick(l1, NLEN)], CLENS[pick(l2, NLEN)] if nn > 1 else 0, CLENS[pick(l3, NLEN)] if nn > 2 else 0][:nn]
        r = run_compound(BUFS[pick(buf, NBUF)], ls, [pick(c1, NCH), pick(c2, NCH)])
    tick(True)
    return r


# ------------------------------------------------------------------ external sort
def run_sort(maxsize, items):
    pool = SortingPool(maxsize=maxsize)
    for it in items:
        pool.add(it)
    got = list(pool.items(maxfiles=2))
    if got != sorted(items):
        return "SortingPool(maxsize=%d) over %r returns %r" % (maxsize, items, got)
    return None


@h(bounds="SortingPool(maxsize 1..4), up to 6 items chosen by symbolic codes from 4 values (duplicates included), merged with maxfiles=2",
   funcs=["whoosh.externalsort.SortingPool", "whoosh.externalsort.imerge", "whoosh.externalsort.bimerge"],
   examples=[dict(m=2, codes=[3, 1, 2, 1, 0, 3])], timeout=dict(quick=900, thorough=3000))
def c20_sortingpool(m: int, codes: List[int]) -> Optional[str]:
    """
    pre: 1 <= m <= 4 and len(codes) <= NS
    pre: all(0 <= c < 4 for c in codes)
    post: _ is None
    """
    from harness.c07_model import sym_true_idx
    VALS = [(1, b"a"), (1, b"b"), (2, b""), (0, b"zz")]
    m0 = m - 1
    with notrace():
        n = 0
        for k in range(NS + 1):
            if sym_true(lambda: len(codes) == k):
                n = k
                break
        items = [VALS[pick(sym_true_idx(codes, i), 4)] for i in range(n)]
        r = run_sort(pick(m0, 4) + 1, items)
    tick(n > 1)
    return r


NS = tiered(5, 6)


# ------------------------------------------------------------------ hash files
KEYSETS = [[b""], [b"a"], [b"a", b"ab"], [b"", b"a", b"ab", b"b"], [b"k1", b"k2", b"k1"], [b"\x00", b"\xff", b"\x00\x00"],
           [b"abc", b"abd", b"ab", b"b", b"a"], [b"x" * 40, b"x" * 41]]


_last_bytes = [b""]


class _KeepBytesIO(io.BytesIO):
    def close(self):
        _last_bytes[0] = self.getvalue()
        io.BytesIO.close(self)


def run_hash2(ks, ordered, hashtype, probe):
    """same as run_hash but keeps the bytes when the writer closes its file"""
    global StructFile
    keys = KEYSETS[ks]
    raw = _KeepBytesIO()
    f = StructFile(raw)
    if ordered:
        skeys = sorted(set(keys))
        w = filetables.OrderedHashWriter(f)
        pairs = [(k, b"v%d" % i) for i, k in enumerate(skeys)]
    else:
        w = filetables.HashWriter(f, hashtype=hashtype)
        pairs = [(k, b"v%d" % i) for i, k in enumerate(keys)]
    for k, v in pairs:
        w.add(k, v)
    w.close()
    if not raw.closed:
        _last_bytes[0] = raw.getvalue()
    return _check_hash(keys, pairs, ordered, hashtype, probe)


def _check_hash(keys, pairs, ordered, hashtype, probe):
    data = _last_bytes[0]
    buf = StructFile(io.BytesIO(data))
    r = (filetables.OrderedHashReader if ordered else filetables.HashReader)(buf, len(data))
    model = {}
    for k, v in pairs:
        model.setdefault(k, []).append(v)
    where = "%s(hashtype=%d) over %r" % ("OrderedHash" if ordered else "Hash", hashtype, keys)
    for k in list(model) + [b"zz", b"a\x00", b"", b"k3", probe]:
        got = list(r.all(k))
        if got != model.get(k, []):
            return "%s: all(%r) = %r, written %r" % (where, k, got, model.get(k, []))
        if (k in r) != (k in model):
            return "%s: %r in reader = %r" % (where, k, k in r)
        if k in model and r[k] != model[k][0]:
            return "%s: reader[%r] = %r, first written %r" % (where, k, r[k], model[k][0])
    if sorted(r.keys()) != sorted(k for k, _ in pairs):
        return "%s: keys() = %r" % (where, sorted(r.keys()))
    if sorted(r.items()) != sorted(pairs):
        return "%s: items() = %r" % (where, sorted(r.items()))
    if ordered:
        skeys = sorted(model)
        if list(r.keys()) != skeys:
            return "%s: ordered keys() = %r" % (where, list(r.keys()))
        want = [k for k in skeys if k >= probe]
        ck = r.closest_key(probe)
        if ck != (want[0] if want else None):
            return "%s: closest_key(%r) = %r, expected %r" % (where, probe, ck, want[0] if want else None)
        if list(r.keys_from(probe)) != want:
            return "%s: keys_from(%r) = %r, expected %r" % (where, probe, list(r.keys_from(probe)), want)
        if [k for k, _ in r.items_from(probe)] != want:
            return "%s: items_from(%r) wrong" % (where, probe)
    return None


PROBES = [b"", b"a", b"aa", b"ab", b"abc\x00", b"b", b"k1", b"k15", b"\x00", b"\xff\xff", b"x" * 40 + b"a", b"z"]


@h(bounds="HashWriter/HashReader and OrderedHashWriter/Reader over %d key sets (empty key, shared prefixes, duplicate keys, 0x00/0xff bytes, long keys), "
          "hash types 0..2 (md5 / crc32 / first byte), %d probe keys; every key returns its values in insertion order, absent keys nothing, ordered files "
          "iterate in key order and answer closest_key/keys_from/items_from" % (len(KEYSETS), len(PROBES)),
   funcs=["whoosh.filedb.filetables.HashWriter", "whoosh.filedb.filetables.HashReader", "whoosh.filedb.filetables.OrderedHashWriter",
          "whoosh.filedb.filetables.OrderedHashReader"],
   examples=[dict(ks=3, ordered=True, ht=0, pr=2), dict(ks=4, ordered=False, ht=2, pr=0)], timeout=dict(quick=900, thorough=3000),
   outside="offsets past 2^31, hash collisions beyond those produced by hash type 2 (first byte) on these key sets")
def c20_hashfile(ks: int, ordered: bool, ht: int, pr: int) -> Optional[str]:
    """
    pre: 0 <= ks < NKS and 0 <= ht < 3 and 0 <= pr < NPR
    post: _ is None
    """
    with notrace():
        r = run_hash2(pick(ks, NKS), sym_true(lambda: ordered), pick(ht, 3), PROBES[pick(pr, NPR)])
    tick(True)
    return r


NKS = len(KEYSETS)
NPR = len(PROBES)


@h(bounds="witness of known finding KF-C20-1 (concrete): RoaringIdSet([1])", funcs=["whoosh.idsets.RoaringIdSet"], examples=[],
   timeout=dict(quick=60, thorough=60))
def c20_kf_roaring(k: int) -> Optional[str]:
    """
    pre: k == 0
    post: _ is None
    """
    with notrace():
        try:
            s_ = idsets.RoaringIdSet([1])
            r = None if list(s_) == [1] and 1 in s_ else "KF-C20-1 witness: RoaringIdSet([1]) holds %r" % (list(s_),)
        except Exception as e:  # noqa
            r = "KF-C20-1 witness: RoaringIdSet([1]) raised %s: %s" % (type(e).__name__, e)
    tick(True)
    return r
