"""C13 end to end (E1): real NUMERIC / DATETIME fields of several widths, signedness, precision steps and
kinds are indexed with values at the edges of their domain; a NumericRange / DateRange whose bounds and
exclusivity flags are symbolic codes must match exactly the documents whose value lies in the interval,
and sorting must order by value.  This ties together what the kernel proofs assume: the tiers NUMERIC.index
writes are the tiers split_ranges queries, tiered_ranges handles None/0/exclusive bounds, and the
sortable column orders like the numbers."""
import datetime
import random
from decimal import Decimal
from typing import Optional

from vk.prelude import THOROUGH, h, tick, tiered, concrete_arrays, notrace, sym_true
from whoosh import fields, query
from whoosh.filedb.filestore import RamStorage

concrete_arrays()

DT = datetime.datetime
# name, field factory, values (ascending, one document each; None = a document without a value)
CONFIGS = [
    ("int8 unsigned step 7", lambda: fields.NUMERIC(int, bits=8, signed=False, shift_step=7, sortable=True), [0, 1, 2, 63, 64, 127, 128, 129, 254, 255]),
    ("int16 signed step 5", lambda: fields.NUMERIC(int, bits=16, signed=True, shift_step=5, sortable=True), [-32768, -32767, -2000, -1, 0, 1, 31, 32, 2000, 32766, 32767]),
    ("int16 unsigned step 3", lambda: fields.NUMERIC(int, bits=16, signed=False, shift_step=3, sortable=True), [0, 1, 7, 8, 32767, 32768, 65534, 65535]),
    ("int32 signed default step", lambda: fields.NUMERIC(int, bits=32, signed=True, sortable=True), [-2 ** 31, -2 ** 31 + 1, -65536, -16, -1, 0, 1, 15, 16, 65536, 2 ** 31 - 2, 2 ** 31 - 1]),
    ("int32 signed step 31", lambda: fields.NUMERIC(int, bits=32, signed=True, shift_step=31, sortable=True), [-2 ** 31, -5, -1, 0, 1, 5, 2 ** 31 - 1]),
    ("int64 signed step 9", lambda: fields.NUMERIC(int, bits=64, signed=True, shift_step=9, sortable=True), [-2 ** 63, -2 ** 40, -512, -1, 0, 1, 511, 512, 2 ** 40, 2 ** 63 - 1]),
    ("int64 unsigned step 8", lambda: fields.NUMERIC(int, bits=64, signed=False, shift_step=8, sortable=True), [0, 1, 255, 256, 2 ** 63 - 1, 2 ** 63, 2 ** 64 - 1]),
    ("float64 step 7", lambda: fields.NUMERIC(float, bits=64, shift_step=7, sortable=True), [-1e300, -2.5, -1.0, -1e-310, 0.0, 1e-310, 0.5, 1.0, 2.5, 1e300]),
    ("float32 default step", lambda: fields.NUMERIC(float, bits=32, sortable=True), [-3.0e38, -2.5, -1.0, 0.0, 0.5, 1.0, 2.5, 3.0e38]),
    ("decimal places 2, int32", lambda: fields.NUMERIC(int, bits=32, decimal_places=2, sortable=True), [Decimal("-100.25"), Decimal("-0.01"), Decimal("0.00"), Decimal("0.01"), Decimal("1.50"), Decimal("99.99")]),
    ("int32 shift_step 0 (no tiers)", lambda: fields.NUMERIC(int, bits=32, signed=True, shift_step=0, sortable=True), [-7, -1, 0, 1, 7]),
    ("datetime", lambda: fields.DATETIME(sortable=True), [DT(1, 1, 1), DT(1969, 12, 31, 23, 59, 59, 999999), DT(1970, 1, 1), DT(2000, 2, 29, 12, 0, 0, 1), DT(2000, 2, 29, 12, 0, 0, 2),
                                                         DT(2038, 1, 19, 3, 14, 8), DT(9999, 12, 31, 23, 59, 59, 999999)]),
]
NCF = len(CONFIGS)
_S = {}


def setup(ci):
    if ci not in _S:
        random.seed(41)
        name, mk, values = CONFIGS[ci]
        ix = RamStorage().create_index(fields.Schema(k=fields.ID(stored=True), v=mk()))
        docs = [(u"v%d" % i, v) for i, v in enumerate(values)] + [(u"none", None)]
        order = list(docs)
        random.shuffle(order)
        half = len(order) // 2
        for part in (order[:half], order[half:]):
            w = ix.writer()
            for k, v in part:
                if v is None:
                    w.add_document(k=k)
                else:
                    w.add_document(k=k, v=v)
            w.commit(merge=False)
        _S[ci] = (ix.searcher(), docs)
    return _S[ci]


def pick(x, n):
    for v in range(n - 1):
        if sym_true(lambda: x == v):
            return v
    return n - 1


def run(ci, si, ei, sx, ex):
    """si / ei index the value table (len(values) = None, i.e. unbounded)"""
    name, mk, values = CONFIGS[ci]
    s, docs = setup(ci)
    start = values[si] if si < len(values) else None
    end = values[ei] if ei < len(values) else None
    where = "%s: range %s%r TO %r%s" % (name, "{" if sx else "[", start, end, "}" if ex else "]")
    want = sorted(k for k, v in docs if v is not None and (start is None or (v > start if sx else v >= start)) and (end is None or (v < end if ex else v <= end)))
    try:
        if name == "datetime":
            q = query.DateRange("v", start, end, startexcl=sx, endexcl=ex)
        else:
            q = query.NumericRange("v", start, end, startexcl=sx, endexcl=ex)
        got = sorted(hit["k"] for hit in s.search(q, limit=None))
    except Exception as e:  # noqa
        import traceback
        return "%s raised %s: %s | %s" % (where, type(e).__name__, e, traceback.format_exc()[-250:].replace("\n", " "))
    if got != want:
        return "%s matches %r, the documents with a value in the interval are %r" % (where, got, want)
    # the same interval through the field's own range parser (what the query parser calls)
    if name not in ("datetime",) and start is not None and end is not None:
        try:
            fobj = s.schema["v"]
            pq = fobj.parse_range("v", repr(start) if not isinstance(start, Decimal) else str(start), repr(end) if not isinstance(end, Decimal) else str(end), sx, ex)
            pgot = sorted(hit["k"] for hit in s.search(pq, limit=None))
        except Exception as e:  # noqa
            return "%s through parse_range raised %s: %s" % (where, type(e).__name__, e)
        if pgot != want:
            return "%s through parse_range matches %r, expected %r" % (where, pgot, want)
    return None


def run_sort(ci):
    name, mk, values = CONFIGS[ci]
    s, docs = setup(ci)
    want = [k for k, v in docs if v is not None]
    for rev in (False, True):
        got = [hit["k"] for hit in s.search(query.Every("v"), sortedby="v", reverse=rev, limit=None)]
        if got != (want[::-1] if rev else want):
            return "%s: sorted by value%s gives %r, expected %r" % (name, " reversed" if rev else "", got, want[::-1] if rev else want)
        col = s.reader().column_reader("v")
        back = dict((s.stored_fields(d)["k"], col[d]) for d in s.reader().all_doc_ids() if s.stored_fields(d)["k"] != u"none")
        for k, v in docs:
            if v is not None and back[k] != v and not (isinstance(v, float) and abs(back[k] - v) <= abs(v) * 1e-6):
                return "%s: column value of %s is %r, indexed %r" % (name, k, back[k], v)
    return None


def _mk(ci):
    name = "c13_field_" + "".join(ch if ch.isalnum() else "_" for ch in CONFIGS[ci][0]).strip("_").lower()
    while "__" in name:
        name = name.replace("__", "_")
    nv = len(CONFIGS[ci][2])

    @h(bounds="field %s with %d values at the edges of its domain (one document each, two segments, one document without a value); NumericRange/DateRange with start and "
              "end chosen by symbolic codes among the values and 'unbounded', both exclusivity flags symbolic; also through the field's parse_range; sorting and column read-back"
              % (CONFIGS[ci][0], nv),
       funcs=["whoosh.fields.NUMERIC.index", "whoosh.fields.NUMERIC.to_bytes", "whoosh.util.numeric.tiered_ranges", "whoosh.util.numeric.split_ranges",
              "whoosh.util.numeric.to_sortable", "whoosh.query.ranges.NumericRange._compile_query", "whoosh.query.ranges.DateRange", "whoosh.fields.NUMERIC.parse_range",
              "whoosh.fields.DATETIME", "whoosh.util.times.datetime_to_long"],
       examples=[dict(si=0, ei=nv, sx=False, ex=True), dict(si=2, ei=1, sx=True, ex=False)], timeout=dict(quick=600, thorough=900),
       outside="values between the listed edge values (covered for the kernels by the bit-vector proofs), other (bits, step) pairs")
    def harness(si: int, ei: int, sx: bool, ex: bool) -> Optional[str]:
        """
        pre: 0 <= si <= NV and 0 <= ei <= NV
        post: _ is None
        """
        with notrace():
            a, b = pick(si, NV + 1), pick(ei, NV + 1)
            r = run(ci, a, b, sym_true(lambda: sx), sym_true(lambda: ex))
            if r is None and a == 0 and b == 0:
                r = run_sort(ci)
        tick(True)
        return r
    NV = nv
    harness.__name__ = harness.__qualname__ = name
    return name, harness


for _ci in range(NCF):
    _n, _f = _mk(_ci)
    globals()[_n] = _f
