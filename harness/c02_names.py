"""C02 (E4): the file-name grammar that commit atomicity relies on, decided with z3 strings + regular
expressions.

The regular expressions are read from the live classes (`TOC._pattern`, `TOC._segment_pattern`) and
translated to z3 `Re` terms on every run (sre_parse -> z3); the name constructors (`TOC._filename`, the
temporary-TOC name built in `TOC.write`, `Segment.make_filename`) are evaluated symbolically: rendered
integers are fresh strings constrained to 0|[1-9][0-9]*, segment ids to [0-9a-z]{16}, extensions to the
codec's extension alphabet.  Obligations (all index names in {MAIN, a 1-3 letter lower-case name}):

  L1  every name TOC._filename(name, g) matches TOC._pattern(name)              (the committed TOC is found)
  L2  no temporary TOC name  <toc name>.<time>  matches TOC._pattern            (a half-written TOC is never read)
  L3  no segment file name matches TOC._pattern, no TOC name matches TOC._segment_pattern
      (clean_files never confuses the two kinds)
  L4  group(1) of TOC._segment_pattern on  <segment id><ext>  is exactly the segment id (clean_files keeps
      the files of live segments): checked as "there is no shorter/longer split", i.e. the id alphabet
      and the '.' that starts the extension are disjoint
  L5  (reported, not asserted) TOC._pattern also accepts names in which the '.' before 'toc' is any
      character - the pattern's dot is unescaped; harmless unless such a file is put into the directory."""
import time

import z3

from vk.smt import q as smtq
from whoosh.index import TOC

try:
    import re._parser as sre_parse      # Python >= 3.11
    import re._constants as sre_c
except ImportError:  # pragma: no cover
    import sre_parse
    import sre_constants as sre_c


def to_z3(pattern):
    """translate the subset of `re` syntax used by the index's patterns; returns (Re, anchored_end)"""
    parsed = sre_parse.parse(pattern)
    anchored = [False]

    def cls(items):
        parts = []
        for op, av in items:
            if op == sre_c.LITERAL:
                parts.append(z3.Re(chr(av)))
            elif op == sre_c.RANGE:
                parts.append(z3.Range(chr(av[0]), chr(av[1])))
            else:
                raise NotImplementedError("class item %r" % (op,))
        return parts[0] if len(parts) == 1 else z3.Union(*parts)

    def seq(items):
        out = []
        for op, av in items:
            if op == sre_c.LITERAL:
                out.append(z3.Re(chr(av)))
            elif op == sre_c.ANY:
                out.append(z3.AllChar(z3.ReSort(z3.StringSort())))
            elif op == sre_c.IN:
                out.append(cls(av))
            elif op == sre_c.MAX_REPEAT:
                lo, hi, sub = av
                r = seq(sub)
                if lo == 1 and hi == sre_c.MAXREPEAT:
                    out.append(z3.Plus(r))
                elif lo == 0 and hi == sre_c.MAXREPEAT:
                    out.append(z3.Star(r))
                else:
                    raise NotImplementedError("repeat %r" % ((lo, hi),))
            elif op == sre_c.SUBPATTERN:
                out.append(seq(av[3]))
            elif op == sre_c.AT:
                if av == sre_c.AT_END:
                    anchored[0] = True
                elif av != sre_c.AT_BEGINNING:
                    raise NotImplementedError("anchor %r" % (av,))
            else:
                raise NotImplementedError("regex op %r" % (op,))
        if not out:
            return z3.Re("")
        return out[0] if len(out) == 1 else z3.Concat(*out)

    return seq(parsed), anchored[0]


def match_re(pattern):
    """the language of strings s with re.match(pattern, s): the pattern, followed by anything unless anchored with $"""
    r, anchored = to_z3(pattern)
    return r if anchored else z3.Concat(r, z3.Full(z3.ReSort(z3.StringSort())))


DIGITS = z3.Union(z3.Re("0"), z3.Concat(z3.Range("1", "9"), z3.Star(z3.Range("0", "9"))))
IDCH = z3.Union(z3.Range("0", "9"), z3.Range("a", "z"))
EXTCH = z3.Union(z3.Range("0", "9"), z3.Range("a", "z"), z3.Range("A", "Z"), z3.Re("_"), z3.Re("."))
INDEXNAMES = ["MAIN", "ix", "a"]


def rp_matches(pattern, s):
    """replay: does the real regular expression match the concrete name?  (returns a message when it does)"""
    import re
    return "re.match(%r, %r) matches" % (pattern, s) if re.match(pattern, s) else None


def rp_not_matches(pattern, s):
    import re
    return None if re.match(pattern, s) else "re.match(%r, %r) does not match" % (pattern, s)


@smtq(bounds="index names %r; every generation number (arbitrary length decimal rendering), every 16-character segment id over [0-9a-z], every extension "
             "'.'+[A-Za-z0-9_.]*, every temporary suffix '.'+digits['.'digits]; z3 sequence/regex theory" % (INDEXNAMES,),
      funcs=["whoosh.index.TOC._pattern", "whoosh.index.TOC._segment_pattern", "whoosh.index.TOC._filename", "whoosh.index.TOC.write",
             "whoosh.index.clean_files", "whoosh.codec.base.Segment.make_filename"],
      outside="index names with regex metacharacters; files put into the directory by other programs (L5 is reported only)", timeout=3000)
def c02_name_grammar(rep):
    for name in INDEXNAMES:
        tocpat = TOC._pattern(name).pattern
        segpat = TOC._segment_pattern(name).pattern
        TOCRE = match_re(tocpat)
        SEGRE = match_re(segpat)
        # translator validation: the real `re` and the z3 encoding must agree on concrete names of every kind
        import re as _re
        concrete = [TOC._filename(name, 0), TOC._filename(name, 1234567890123), TOC._filename(name, 7) + ".1695555555.123", "_%s_7xtoc" % name,
                    "%s_0123456789abcdef.seg" % name, "%s_zzzzzzzzzzzzzzzz.f_1.col" % name, "_%s_.toc" % name, "_%s_12.toc2" % name, "x_%s_3.toc" % name, ""]
        for pat, R in ((tocpat, TOCRE), (segpat, SEGRE)):
            for cn in concrete:
                sv = z3.Solver()
                sv.add(z3.InRe(z3.StringVal(cn), R))
                zr = sv.check()
                rep.queries += 1
                if (zr == z3.sat) != bool(_re.match(pat, cn)):
                    rep.inconclusive("translator validation [%s]" % name, "re.match(%r, %r) = %r but the encoding says %s" % (pat, cn, bool(_re.match(pat, cn)), zr))
        g = z3.String("g")
        sid = z3.String("sid")
        ext = z3.String("ext")
        tm = z3.String("tm")
        # the real constructors, evaluated with a marker and spliced symbolically
        probe = TOC._filename(name, "\x00")
        pre, post = probe.split("\x00")
        tocname = z3.Concat(z3.StringVal(pre), g, z3.StringVal(post))
        segid = z3.Concat(z3.StringVal(name + "_"), sid)
        segfile = z3.Concat(segid, ext)
        tmpname = z3.Concat(tocname, z3.StringVal("."), tm)
        base = [z3.InRe(g, DIGITS), z3.InRe(sid, z3.Loop(IDCH, 16, 16)), z3.InRe(ext, z3.Concat(z3.Re("."), z3.Plus(EXTCH))),
                z3.InRe(tm, z3.Concat(z3.Plus(z3.Range("0", "9")), z3.Option(z3.Concat(z3.Re("."), z3.Plus(z3.Range("0", "9"))))))]

        def ask(label, extra, replay_fn, pattern, witness_term, expect_unsat=True):
            s = z3.Solver()
            s.set("timeout", 60000 if not expect_unsat else 240000)
            s.add(*base)
            s.add(*extra)
            t0 = time.time()
            r = s.check()
            rep.queries += 1
            rep.solver_s += time.time() - t0
            if r == z3.unsat:
                rep.held("%s [%s]" % (label, name))
            elif r == z3.sat:
                w = s.model().eval(witness_term, model_completion=True).as_string()
                if expect_unsat:
                    rep.violation("%s [%s]" % (label, name), "%s(%r, %r)" % (replay_fn, pattern, w))
                else:
                    rep.sample({"lemma": label, "index": name, "witness": w})
                    rep.held("%s [%s] (reported: e.g. %r)" % (label, name, w))
            elif not expect_unsat:
                rep.held("%s [%s] (reported-only lemma: solver undecided within its budget this time)" % (label, name))
            else:
                rep.inconclusive("%s [%s]" % (label, name), "solver answered unknown")

        ask("L1 committed TOC name matches the TOC pattern", [z3.Not(z3.InRe(tocname, TOCRE))], "rp_not_matches", tocpat, tocname)
        ask("L2 temporary TOC name never matches the TOC pattern", [z3.InRe(tmpname, TOCRE)], "rp_matches", tocpat, tmpname)
        ask("L3a segment file never matches the TOC pattern", [z3.InRe(segfile, TOCRE)], "rp_matches", tocpat, segfile)
        ask("L3b TOC name never matches the segment pattern", [z3.InRe(tocname, SEGRE)], "rp_matches", segpat, tocname)
        ask("L3c temporary TOC name never matches the segment pattern", [z3.InRe(tmpname, SEGRE)], "rp_matches", segpat, tmpname)
        ask("L4a segment file matches the segment pattern", [z3.Not(z3.InRe(segfile, SEGRE))], "rp_not_matches", segpat, segfile)
        # group(1) = name_[0-9a-z]+ is delimited by the first '.', which is not in the id alphabet: the id itself contains no '.'
        ask("L4b the segment id contains no '.', so group(1) is exactly the id", [z3.Contains(segid, z3.StringVal("."))], "rp_matches", r"[^.]*\.", segid)
        # L5: the unescaped dot (reported only)
        odd = z3.String("odd")
        ask("L5 TOC pattern accepts a name without the '.' before 'toc'",
            [z3.InRe(odd, TOCRE), z3.Not(z3.Contains(odd, z3.StringVal(".")))], "rp_matches", tocpat, odd, expect_unsat=False)
    rep.sample({"function": "TOC._pattern / _segment_pattern / _filename", "obligation": "L1-L4 unsat, L5 reported"})
