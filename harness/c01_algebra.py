"""C01-H1: matcher algebra over symbolic ascending id lists vs. list algebra (E1)."""
from typing import List, Optional
import random

from vk.prelude import h, tick, asc, tiered
from whoosh.matching import (ListMatcher, UnionMatcher, IntersectionMatcher, AndNotMatcher,
                             AndMaybeMatcher, RequireMatcher, DisjunctionMaxMatcher,
                             InverseMatcher, FilterMatcher, MultiMatcher, ArrayUnionMatcher,
                             PreloadedUnionMatcher, WrappingMatcher, ConstantScoreWrapperMatcher,
                             NullMatcher)

NI = tiered(3, 4)      # max ids per leaf (depth 1)
ND = tiered(8, 10)     # ids below
NINV = tiered(2, 3)
NDINV = tiered(5, 7)
NC3 = tiered(1, 2)     # third submatcher of the array unions
NI2 = 2                # depth 2
ND2 = 6

F = ["whoosh.matching.mcore.ListMatcher"]


def step(m):
    out = []
    n = 0
    while m.is_active():
        out.append(m.id())
        m.next()
        n += 1
        if n > 40:
            return out + ["RUNAWAY"]
    return out


def o_union(a, b):
    return sorted(a + [x for x in b if x not in a])


def o_inter(a, b):
    return [x for x in a if x in b]


def o_andnot(a, b):
    return [x for x in a if x not in b]


def leaf(ids):
    return ListMatcher(list(ids))


def both(mk, oracle):
    """Observe by next()-stepping and by all_ids() on a fresh instance."""
    got = step(mk())
    if got != oracle:
        return "step %r != %r" % (got, oracle)
    got2 = list(mk().all_ids())
    if got2 != oracle:
        return "all_ids %r != %r" % (got2, oracle)
    return None


EX2 = [dict(a=[1, 3], b=[0, 3, 5]), dict(a=[], b=[2]), dict(a=[5], b=[4, 5])]


@h(bounds="ids<=NI<ND per leaf (quick 3<8, thorough 4<10)", funcs=F + ["whoosh.matching.binary.UnionMatcher"], examples=EX2)
def c01_union(a: List[int], b: List[int]) -> Optional[str]:
    """
    pre: asc(a, NI, ND) and asc(b, NI, ND)
    post: _ is None
    """
    r = both(lambda: UnionMatcher(leaf(a), leaf(b)), o_union(a, b))
    tick(len(a) > 0 and len(b) > 0)
    return r


@h(bounds="ids<=NI<ND per leaf", funcs=F + ["whoosh.matching.binary.IntersectionMatcher"], examples=EX2)
def c01_intersection(a: List[int], b: List[int]) -> Optional[str]:
    """
    pre: asc(a, NI, ND) and asc(b, NI, ND)
    post: _ is None
    """
    r = both(lambda: IntersectionMatcher(leaf(a), leaf(b)), o_inter(a, b))
    tick(len(a) > 0 and len(b) > 0)
    return r


@h(bounds="ids<=NI<ND per leaf", funcs=F + ["whoosh.matching.binary.AndNotMatcher"], examples=EX2)
def c01_andnot(a: List[int], b: List[int]) -> Optional[str]:
    """
    pre: asc(a, NI, ND) and asc(b, NI, ND)
    post: _ is None
    """
    r = both(lambda: AndNotMatcher(leaf(a), leaf(b)), o_andnot(a, b))
    tick(len(a) > 0 and len(b) > 0)
    return r


@h(bounds="ids<=NI<ND per leaf", funcs=F + ["whoosh.matching.binary.AndMaybeMatcher"], examples=EX2)
def c01_andmaybe(a: List[int], b: List[int]) -> Optional[str]:
    """
    pre: asc(a, NI, ND) and asc(b, NI, ND)
    post: _ is None
    """
    r = both(lambda: AndMaybeMatcher(leaf(a), leaf(b)), list(a))
    tick(len(a) > 0 and len(b) > 0)
    return r


@h(bounds="ids<=NI<ND per leaf", funcs=F + ["whoosh.matching.wrappers.RequireMatcher"], examples=EX2)
def c01_require(a: List[int], b: List[int]) -> Optional[str]:
    """
    pre: asc(a, NI, ND) and asc(b, NI, ND)
    post: _ is None
    """
    r = both(lambda: RequireMatcher(leaf(a), leaf(b)), o_inter(a, b))
    tick(len(a) > 0 and len(b) > 0)
    return r


@h(bounds="ids<=NI<ND per leaf", funcs=F + ["whoosh.matching.binary.DisjunctionMaxMatcher"], examples=EX2)
def c01_dismax(a: List[int], b: List[int]) -> Optional[str]:
    """
    pre: asc(a, NI, ND) and asc(b, NI, ND)
    post: _ is None
    """
    r = both(lambda: DisjunctionMaxMatcher(leaf(a), leaf(b)), o_union(a, b))
    tick(len(a) > 0 and len(b) > 0)
    return r


@h(bounds="ids<=2<5 (thorough 3<7), limit<=5 (7), missing (deleted) set <=2 ids disjoint from the child's postings "
          "(SegmentReader.postings already excludes deleted documents from every leaf)", funcs=F + ["whoosh.matching.wrappers.InverseMatcher"],
   examples=[dict(a=[1, 3], limit=5, miss=[0]), dict(a=[], limit=0, miss=[])])
def c01_inverse(a: List[int], limit: int, miss: List[int]) -> Optional[str]:
    """
    pre: asc(a, NINV, NDINV) and 0 <= limit <= NDINV and asc(miss, 2, NDINV)
    pre: all(x < limit for x in a)
    pre: all(x not in miss for x in a)
    post: _ is None
    """
    missing = lambda d: d in miss
    oracle = [d for d in range(limit) if d not in a and d not in miss]
    r = both(lambda: InverseMatcher(leaf(a), limit, missing=missing), oracle)
    tick(len(a) > 0 and limit > 1)
    return r


@h(bounds="ids<=NI<ND, filter set ids<=NI<ND, exclude symbolic", funcs=F + ["whoosh.matching.wrappers.FilterMatcher"],
   examples=[dict(a=[1, 3], f=[3], exclude=False), dict(a=[1, 3], f=[3], exclude=True)])
def c01_filter(a: List[int], f: List[int], exclude: bool) -> Optional[str]:
    """
    pre: asc(a, NI, ND) and asc(f, NI, ND)
    post: _ is None
    """
    oracle = o_andnot(a, f) if exclude else o_inter(a, f)
    r = both(lambda: FilterMatcher(leaf(a), list(f), exclude=exclude), oracle)
    tick(len(a) > 0 and len(f) > 0)
    return r


@h(bounds="2 segments, ids<=NI<ND each, second offset in [ND, ND+3]", funcs=F + ["whoosh.matching.wrappers.MultiMatcher"],
   examples=[dict(a=[1, 3], b=[0, 2], off=9), dict(a=[], b=[0], off=8)])
def c01_multi(a: List[int], b: List[int], off: int) -> Optional[str]:
    """
    pre: asc(a, NI, ND) and asc(b, NI, ND) and ND <= off <= ND + 3
    post: _ is None
    """
    oracle = list(a) + [x + off for x in b]
    r = both(lambda: MultiMatcher([leaf(a), leaf(b)], [0, off]), oracle)
    tick(len(a) > 0 and len(b) > 0)
    return r


@h(bounds="ids<=NI<ND", funcs=F + ["whoosh.matching.wrappers.WrappingMatcher", "whoosh.matching.wrappers.ConstantScoreWrapperMatcher"],
   examples=[dict(a=[1, 3], const=True), dict(a=[], const=False)])
def c01_wrapping(a: List[int], const: bool) -> Optional[str]:
    """
    pre: asc(a, NI, ND)
    post: _ is None
    """
    if const:
        mk = lambda: ConstantScoreWrapperMatcher(leaf(a), 2.0)
    else:
        mk = lambda: WrappingMatcher(leaf(a), boost=2.0)
    r = both(mk, list(a))
    tick(len(a) > 0)
    return r


# ---- depth 2: op1(op2(a, b), c) and op1(c, op2(a, b)) for every pair of binary classes
BIN = [
    ("union", UnionMatcher, o_union),
    ("inter", IntersectionMatcher, o_inter),
    ("andnot", AndNotMatcher, o_andnot),
    ("andmaybe", AndMaybeMatcher, lambda a, b: list(a)),
    ("require", RequireMatcher, o_inter),
    ("dismax", DisjunctionMaxMatcher, o_union),
]


def _nest(op1, op2, left, a, b, c):
    _, k1, f1 = BIN[op1]
    _, k2, f2 = BIN[op2]
    inner_o = f2(a, b)
    if left:
        oracle = f1(inner_o, c)
        mk = lambda: k1(k2(leaf(a), leaf(b)), leaf(c))
    else:
        oracle = f1(c, inner_o)
        mk = lambda: k1(leaf(c), k2(leaf(a), leaf(b)))
    return both(mk, oracle)


def _mk_nest(op1):
    name = BIN[op1][0]

    @h(bounds="outer=%s, inner op symbolic over 6 binary classes, inner on left/right symbolic, 3 leaves ids<=2<6; thorough tier only (about 6000 paths, 1000 s; the quick tier covers nesting through c01_d2_*)" % name,
       funcs=F + ["whoosh.matching.binary.*", "whoosh.matching.wrappers.RequireMatcher"],
       examples=[dict(op2=2, left=True, a=[1, 3], b=[0, 3], c=[1]), dict(op2=0, left=False, a=[1], b=[2], c=[1, 2])],
       timeout=dict(quick=400, thorough=4000), tiers=("thorough",))
    def nest(op2: int, left: bool, a: List[int], b: List[int], c: List[int]) -> Optional[str]:
        """
        pre: 0 <= op2 < 6
        pre: asc(a, NI2, ND2) and asc(b, NI2, ND2) and asc(c, NI2, ND2)
        post: _ is None
        """
        r = _nest(op1, op2, left, a, b, c)
        tick(len(a) > 0 and len(b) > 0 and len(c) > 0)
        return r
    nest.__name__ = nest.__qualname__ = "c01_nest_" + name
    return nest


c01_nest_union = _mk_nest(0)
c01_nest_inter = _mk_nest(1)
c01_nest_andnot = _mk_nest(2)
c01_nest_andmaybe = _mk_nest(3)
c01_nest_require = _mk_nest(4)
c01_nest_dismax = _mk_nest(5)
