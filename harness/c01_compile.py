"""C01-H2: query -> matcher compilation and every search access path vs. a reference evaluator over the
corpus model, on five physical layouts of the same logical index (E1, symbolic query codes).

The query shape/leaf codes are the symbolic inputs; index data is concrete, the search pipeline runs
natively (vk.prelude.notrace) and the solver case-splits the codes completely."""
from typing import Optional

from vk.prelude import h, tick, tiered, concrete_arrays, notrace, sym_true
from vk import corpus as C

concrete_arrays()

LEAVES = C.leaves()
NL = len(LEAVES)
NOPS = len(C.OPS)
_S = {}


def searchers():
    if not _S:
        for name in C.LAYOUTS:
            _S[name] = C.build_layout(name).searcher()
    return _S


def pick(x, n):
    """Concrete value of the symbolic code x in [0, n): one solver branch per value."""
    for v in range(n - 1):
        if sym_true(lambda: x == v):
            return v
    return n - 1


def check_query(q, pred, desc):
    want = C.expected(pred)
    for name, s in searchers().items():
        try:
            ap = C.access_paths(s, q)
        except Exception as e:  # noqa
            return "%s on layout %s raised %s: %s" % (desc, name, type(e).__name__, e)
        for path in ("docs_for_query", "query.docs", "search(limit=None)", "unscored", "sortedby k", "terms=True", "matcher"):
            if ap[path] != want:
                return "%s on layout %s: %s gives %r, reference %r" % (desc, name, path, ap[path], want)
        for path in ("len(limit=None)", "len(limit=1)", "len(limit=2)"):
            if ap[path] != len(want):
                return "%s on layout %s: %s = %r, reference %r" % (desc, name, path, ap[path], len(want))
        for lim in (1, 2):
            if not set(ap["hits(limit=%d)" % lim]) <= set(want):
                return "%s on layout %s: search(limit=%d) returns %r, not all among the matching documents %r" % (
                    desc, name, lim, ap["hits(limit=%d)" % lim], want)
            if ap["scored_length(limit=%d)" % lim] != min(lim, len(want)):
                return "%s on layout %s: scored_length(limit=%d) = %r" % (desc, name, lim, ap["scored_length(limit=%d)" % lim])
        if not ap["matcher ascending"]:
            return "%s on layout %s: matcher ids not strictly ascending" % (desc, name)
    return None


def run_depth1(op, a, b):
    la, lb = LEAVES[a], LEAVES[b]
    o = C.OPS[op]
    q = o[1](la[1](), lb[1]())
    pred = lambda d: o[2](bool(la[2](d)), bool(lb[2](d)))
    return check_query(q, pred, "%s(%s, %s)" % (o[0], la[0], lb[0]))


def run_leaf(a):
    la = LEAVES[a]
    return check_query(la[1](), la[2], la[0])


def run_depth2(op1, op2, left, a, b, c):
    la, lb, lc = LEAVES[C.BASIC[a]], LEAVES[C.BASIC[b]], LEAVES[C.BASIC[c]]
    o1, o2 = C.OPS[op1], C.OPS[op2]
    inner = o2[1](la[1](), lb[1]())
    pin = lambda d: o2[2](bool(la[2](d)), bool(lb[2](d)))
    if left:
        q = o1[1](inner, lc[1]())
        pred = lambda d: o1[2](pin(d), bool(lc[2](d)))
        desc = "%s(%s(%s, %s), %s)" % (o1[0], o2[0], la[0], lb[0], lc[0])
    else:
        q = o1[1](lc[1](), inner)
        pred = lambda d: o1[2](bool(lc[2](d)), pin(d))
        desc = "%s(%s, %s(%s, %s))" % (o1[0], lc[0], o2[0], la[0], lb[0])
    return check_query(q, pred, desc)


FUNCS = ["whoosh.query.compound.*", "whoosh.query.terms.*", "whoosh.query.ranges.*", "whoosh.query.positional.Phrase", "whoosh.query.qcore.*",
         "whoosh.query.wrappers.*", "whoosh.searching.Searcher.search", "whoosh.searching.Searcher.docs_for_query", "whoosh.collectors.*",
         "whoosh.reading.SegmentReader", "whoosh.reading.MultiReader", "whoosh.matching.*", "whoosh.codec.whoosh3.W3LeafMatcher"]
OUT = "corpora other than the fixed 8-document corpus (+2 deleted), depth > 2, nested-document queries, date parsing"


@h(bounds="every leaf query of the %d-leaf table alone; 5 layouts (1/2/3 segments, deletions, optimised), 11 access paths" % NL,
   funcs=FUNCS, examples=[dict(a=0), dict(a=12)], outside=OUT, timeout=dict(quick=200, thorough=400))
def c01_leaf(a: int) -> Optional[str]:
    """
    pre: 0 <= a < NL
    post: _ is None
    """
    with notrace():
        r = run_leaf(pick(a, NL))
    tick(True)
    return r


def _mk1(op):
    name = "c01_d1_" + "".join(ch if ch.isalnum() else "_" for ch in C.OPS[op][0]).strip("_").lower()

    @h(bounds="%s(a, b) for every ordered pair of the %d-leaf table (terms, prefix/wildcard/regex, term and numeric ranges, fuzzy, Every, "
              "phrases with slop, NullQuery); 5 layouts x 11 access paths" % (C.OPS[op][0], NL),
       funcs=FUNCS, examples=[dict(a=0, b=1), dict(a=12, b=18)], outside=OUT, timeout=dict(quick=400, thorough=800))
    def harness(a: int, b: int) -> Optional[str]:
        """
        pre: 0 <= a < NL and 0 <= b < NL
        post: _ is None
        """
        with notrace():
            r = run_depth1(op, pick(a, NL), pick(b, NL))
        tick(True)
        return r
    harness.__name__ = harness.__qualname__ = name
    return name, harness


for _op in range(NOPS):
    _n, _f = _mk1(_op)
    globals()[_n] = _f

NB = len(C.BASIC)
NOP2 = tiered(4, NOPS)


def _mk2(op1):
    name = "c01_d2_" + "".join(ch if ch.isalnum() else "_" for ch in C.OPS[op1][0]).strip("_").lower()

    @h(bounds="%s(op2(a, b), c) and %s(c, op2(a, b)) for op2 over the first %d operators and a, b, c over %d basic leaves (quick: a term, a numeric range, Every; thorough: 3 terms, numeric range, Every)"
              % (C.OPS[op1][0], C.OPS[op1][0], NOP2, NB),
       funcs=FUNCS, examples=[dict(op2=3, left=True, a=0, b=1, c=2), dict(op2=0, left=False, a=2, b=1, c=0)], outside=OUT,
       timeout=dict(quick=500, thorough=1500))
    def harness(op2: int, left: bool, a: int, b: int, c: int) -> Optional[str]:
        """
        pre: 0 <= op2 < NOP2 and 0 <= a < NB and 0 <= b < NB and 0 <= c < NB
        post: _ is None
        """
        with notrace():
            lf = sym_true(lambda: left)
            r = run_depth2(op1, pick(op2, NOP2), lf, pick(a, NB), pick(b, NB), pick(c, NB))
        tick(True)
        return r
    harness.__name__ = harness.__qualname__ = name
    return name, harness


for _op in range(NOPS):
    _n, _f = _mk2(_op)
    globals()[_n] = _f
