"""C15: query rewriting preserves meaning (E1, symbolic tree codes; native query code).

All query classes used here are document-local (a document matches iff a predicate on its own terms
holds), so two queries are equivalent on every index iff they agree on every *document type*.  The
index used here contains one document for every combination of the features the leaf vocabulary can
observe (terms a,b,c of the multi-valued field f present/absent x number n in {none,5,10,15} x value of
the single-valued field u in {none,a,b,c}): 128 document types.  Term ranges are taken over the
single-valued field u: And-merging two ranges by intersection (pinned by tests/test_queries.py::
test_merge_ranges) is only meaningful there; the multi-valued case is known finding KF-C15-2.
"""
import copy
import pickle
import random
from typing import List, Optional

from vk.prelude import h, tick, tiered, concrete_arrays, notrace, sym_true
from whoosh import fields, query, analysis
from whoosh.query import spans
from whoosh.filedb.filestore import RamStorage

concrete_arrays()

PTEXTS = [u"a b", u"b a", u"a x b", u"b x a", u"a", u"b x x a", u"x a b", u""]
NUMS = [None, 5, 10, 15]
UVALS = [None, u"a", u"b", u"c"]
_IX = {}


def ix():
    if not _IX:
        random.seed(3)
        # f: multi-valued (several terms per document); u: single-valued; n: single-valued number
        # p: positional text whose word order varies from document to document (phrases, spans)
        schema = fields.Schema(k=fields.ID(stored=True), f=fields.KEYWORD(scorable=True), u=fields.ID(),
                               n=fields.NUMERIC(int, bits=8, signed=False, shift_step=4),
                               p=fields.TEXT(analyzer=analysis.SimpleAnalyzer(), phrase=True))
        st = RamStorage()
        i = st.create_index(schema)
        w = i.writer()
        num = 0
        for mask in range(8):
            for nv in NUMS:
                for uv in UVALS:
                    words = u" ".join(wd for bit, wd in enumerate([u"a", u"b", u"c"]) if mask >> bit & 1)
                    kw = dict(k=u"%03d" % num, f=words)
                    if nv is not None:
                        kw["n"] = nv
                    if uv is not None:
                        kw["u"] = uv
                    kw["p"] = PTEXTS[num % len(PTEXTS)]
                    w.add_document(**kw)
                    num += 1
        w.commit()
        _IX["ix"] = i
        _IX["s"] = i.searcher()
    return _IX["s"]


def matches(q):
    s = ix()
    return sorted(s.docs_for_query(q))


def pick(x, n):
    for v in range(n - 1):
        if sym_true(lambda: x == v):
            return v
    return n - 1


def leaf(code):
    T = query.Term
    table = [
        lambda: T("f", u"a"), lambda: T("f", u"b"), lambda: T("f", u"c"), lambda: T("f", u"a", boost=2.0),
        lambda: query.TermRange("u", u"a", u"b"), lambda: query.TermRange("u", u"b", u"c"),
        lambda: query.TermRange("u", u"a", u"c", startexcl=True), lambda: query.TermRange("u", None, u"b", endexcl=True),
        lambda: query.TermRange("u", u"b", None),
        lambda: query.NumericRange("n", 5, 10), lambda: query.NumericRange("n", 10, 15),
        lambda: query.NumericRange("n", 5, 15, startexcl=True, endexcl=True), lambda: query.NumericRange("n", None, 10),
        lambda: query.Every(), lambda: query.Every("f"), lambda: query.Every("n"), lambda: query.NullQuery,
        lambda: query.Prefix("f", u"a"), lambda: query.ConstantScoreQuery(T("f", u"b"), 2.0),
        lambda: query.And([]), lambda: query.Or([]), lambda: query.Not(T("f", u"c")),
        lambda: query.Wildcard("f", u"?"), lambda: T("f", u"zz"),
        # positional leaves: attributes (slop, ordered, mindist, limit) must survive every rewrite
        lambda: query.Phrase("p", [u"a", u"b"], slop=2),
        lambda: spans.SpanNear(T("p", u"a"), T("p", u"b"), slop=1, ordered=False),
        lambda: spans.SpanNear(T("p", u"a"), T("p", u"b"), slop=2, ordered=True),
        lambda: spans.SpanFirst(T("p", u"a"), limit=1),
        lambda: spans.SpanNot(T("p", u"a"), T("p", u"x")),
        lambda: spans.SpanOr([T("p", u"x"), spans.SpanNear(T("p", u"b"), T("p", u"a"), slop=1)]),
    ]
    return table[code]()


NLEAF = 30
COMPOUND = [
    ("And", lambda subs: query.And(subs)), ("Or", lambda subs: query.Or(subs)), ("DisMax", lambda subs: query.DisjunctionMax(subs)),
    ("And^2", lambda subs: query.And(subs, boost=2.0)), ("Or^.5", lambda subs: query.Or(subs, boost=0.5)),
]
BINARY = [
    ("AndNot", lambda a, b: query.AndNot(a, b)), ("AndMaybe", lambda a, b: query.AndMaybe(a, b)), ("Require", lambda a, b: query.Require(a, b)),
    ("Not", lambda a, b: query.Not(a)), ("a&b", lambda a, b: a & b), ("a|b", lambda a, b: a | b), ("a-b", lambda a, b: a - b),
    ("Otherwise", lambda a, b: query.Otherwise(a, b)),
]
NOP = len(COMPOUND) + len(BINARY)


def build(op, subs):
    if op < len(COMPOUND):
        return COMPOUND[op][1](list(subs))
    b = BINARY[op - len(COMPOUND)]
    return b[1](subs[0], subs[1] if len(subs) > 1 else subs[0])


def opname(op):
    return COMPOUND[op][0] if op < len(COMPOUND) else BINARY[op - len(COMPOUND)][0]


# ------------------------------------------------------------------ known finding KF-C15-1 (see known_findings.json)
def _flat_and_clauses(q):
    """clauses of an And after merging nested Ands (what normalize() looks at)"""
    out = []
    for s in q.subqueries:
        if isinstance(s, query.And):
            out += _flat_and_clauses(s)
        else:
            out.append(s)
    return out


from whoosh.query.compound import BinaryQuery as _BinaryQuery
from whoosh.query.wrappers import WrappingQuery as _WrappingQuery


def _kfield(q):
    """field() as documented (Not and NullQuery have none, compounds the common field of their clauses), computed here so that
    the exclusion below does not depend on the field() methods of the code under test (seed C15-5 widened it through Not.field())"""
    if q is query.NullQuery or isinstance(q, query.Not):
        return None
    if hasattr(q, "subqueries"):
        fs = [_kfield(s) for s in q.subqueries]
        return fs[0] if fs and all(f == fs[0] for f in fs[1:]) else None
    if isinstance(q, _BinaryQuery):
        fa = _kfield(q.a)
        return fa if _kfield(q.b) == fa else None
    if isinstance(q, _WrappingQuery):
        return _kfield(q.child)
    return q.field()


def kf_every_field_under_and(q):
    """And containing Every(f) next to another clause whose field() is f: normalize() keeps only
    Every(f) (pinned by tests/test_queries.py::test_merge_ranges).  Also the Or form with a Not clause of
    the same field.  Checked on the tree before and after sub-query normalisation."""
    if q is query.NullQuery:
        return False
    if isinstance(q, (query.And, query.Or, query.DisjunctionMax)):
        subs = []
        for s in (_flat_and_clauses(q) if isinstance(q, query.And) else q.subqueries):
            try:
                subs.append(s.normalize())
            except Exception:  # noqa
                subs.append(s)
        flat = []
        for s in subs:
            if isinstance(s, type(q)) and not isinstance(s, query.DisjunctionMax):
                flat += list(s.subqueries)
            else:
                flat.append(s)
        efields = set(s.fieldname for s in flat if isinstance(s, query.Every) and s.fieldname is not None)
        for s in flat:
            if s is query.NullQuery or isinstance(s, query.Every):
                continue
            if _kfield(s) in efields:
                if isinstance(q, query.And):
                    return True
                # disjunction: absorbing a positive same-field clause is sound; a Not clause is not
                if _has_not(s):
                    return True
    if hasattr(q, "subqueries"):
        return any(kf_every_field_under_and(s) for s in q.subqueries)
    if isinstance(q, (query.Not, query.ConstantScoreQuery)):
        return kf_every_field_under_and(q.query if hasattr(q, "query") else q.child)
    return False


def _has_not(q):
    if isinstance(q, query.Not):
        return True
    if hasattr(q, "subqueries"):
        return any(_has_not(s) for s in q.subqueries)
    return False


def kf_and_ranges(q):
    """KF-C15-2: an And (after flattening) with two overlapping TermRanges on the same field: normalize()
    'intersects' them, but RangeMixin.merge() returns the *containing* range when one range contains the
    other (pinned by tests/test_queries.py::test_merge_ranges) and intersection is meaningless for
    multi-valued fields."""
    if q is query.NullQuery:
        return False
    if isinstance(q, query.And):
        rs = []
        for s in _flat_and_clauses(q):
            try:
                s = s.normalize()
            except Exception:  # noqa
                pass
            if isinstance(s, query.And):
                rs += [x for x in s.subqueries if isinstance(x, query.TermRange)]
            elif isinstance(s, query.TermRange):
                rs.append(s)
        for i in range(len(rs)):
            for j in range(i + 1, len(rs)):
                if rs[i].overlaps(rs[j]):
                    return True
    if hasattr(q, "subqueries"):
        return any(kf_and_ranges(s) for s in q.subqueries)
    if isinstance(q, query.Not):
        return kf_and_ranges(q.query)
    if isinstance(q, query.ConstantScoreQuery):
        return kf_and_ranges(q.child)
    return False


def kf_not_null(q):
    """KF-C15-3: Not(x) where x normalizes to NullQuery: normalize() gives NullQuery (matches nothing)
    although Not(NullQuery) matches every document."""
    if q is query.NullQuery:
        return False
    if isinstance(q, query.Not):
        try:
            if q.query.normalize() is query.NullQuery:
                return True
        except Exception:  # noqa
            pass
        return kf_not_null(q.query)
    if hasattr(q, "subqueries"):
        return any(kf_not_null(s) for s in q.subqueries)
    if isinstance(q, query.ConstantScoreQuery):
        return kf_not_null(q.child)
    return False


def has_empty_compound(q):
    if q is query.NullQuery:
        return False
    if hasattr(q, "subqueries"):
        return len(q.subqueries) == 0 or any(has_empty_compound(s) for s in q.subqueries)
    if isinstance(q, query.Not):
        return has_empty_compound(q.query)
    return False


def known(q):
    if kf_every_field_under_and(q):
        return "KF-C15-1"
    if kf_and_ranges(q):
        return "KF-C15-2"
    if kf_not_null(q):
        return "KF-C15-3"
    return None


def check_rewrites(q, desc, allow_known=True):
    try:
        base = matches(q)
    except Exception as e:  # noqa
        # the un-normalised original cannot be run (e.g. an empty And() clause): nothing to compare with,
        # but normalize() must still not raise
        try:
            q.normalize()
        except Exception as e2:  # noqa
            return "%s: normalize raised %s: %s" % (desc, type(e2).__name__, e2), False
        return None, False
    if allow_known and known(q):
        return None, False
    s = ix()
    r = s.reader()
    rewrites = [
        ("normalize()", lambda: q.normalize()),
        ("normalize().normalize()", lambda: q.normalize().normalize()),
        ("with_boost(2)", lambda: q.with_boost(2.0)),
        ("replace(absent term)", lambda: q.replace("f", u"qq", u"rr")),
        ("accept(identity)", lambda: q.accept(lambda x: x)),
        ("deepcopy", lambda: copy.deepcopy(q)),
        ("pickle", lambda: pickle.loads(pickle.dumps(q, 2))),
        ("simplify(reader)", lambda: q.simplify(r)),
        ("simplify(reader).normalize()", lambda: q.simplify(r).normalize()),
    ]
    for name, fn in rewrites:
        try:
            q2 = fn()
        except Exception as e:  # noqa
            return "%s: %s raised %s: %s" % (desc, name, type(e).__name__, e), True
        try:
            got = matches(q2)
        except Exception as e:  # noqa
            return "%s: %s = %r fails to run: %s: %s" % (desc, name, q2, type(e).__name__, e), True
        if got != base:
            return "%s: %s = %r matches %d document types, the original %d (differs on %r)" % (
                desc, name, q2, len(got), len(base), sorted(set(got) ^ set(base))[:6]), True
    try:
        n1 = q.normalize()
        if n1.normalize() != n1:
            return "%s: normalize() is not idempotent: %r -> %r" % (desc, n1, n1.normalize()), True
    except Exception as e:  # noqa
        return "%s: normalize raised %s: %s" % (desc, type(e).__name__, e), True
    try:
        est = q.estimate_size(r)
    except Exception as e:  # noqa
        if has_empty_compound(q):
            return None, True       # un-normalised empty And()/Or(): outside the statement about estimates
        return "%s: estimate_size raised %s: %s" % (desc, type(e).__name__, e), True
    if est < len(base):
        return "%s: estimate_size() = %d is below the true match count %d" % (desc, est, len(base)), True
    return None, True


def run_tree(op, a, b, c, op2, inner_pos):
    """op(x, y[, z]) where one of the operands (inner_pos 0..2, or 3 = none) is op2(a, b)"""
    la, lb, lc = leaf(a), leaf(b), leaf(c)
    if inner_pos == 3:
        subs = [la, lb, lc]
        desc = "%s(%d,%d,%d)" % (opname(op), a, b, c)
    else:
        inner = build(op2, [la, lb])
        subs = [lc, lc, lc]
        subs = [leaf(c), leaf((c + 7) % NLEAF), leaf((c + 13) % NLEAF)]
        subs[inner_pos] = inner
        desc = "%s(..%s(%d,%d) at %d.., c=%d)" % (opname(op), opname(op2), a, b, inner_pos, c)
    q = build(op, subs)
    return check_rewrites(q, desc + " = %r" % (q,))


FUNCS = ["whoosh.query.compound.CompoundQuery.normalize", "whoosh.query.compound.BinaryQuery.normalize", "whoosh.query.qcore.Query.__and__",
         "whoosh.query.qcore.Query.__or__", "whoosh.query.qcore.Query.__sub__", "whoosh.query.qcore.Query.accept", "whoosh.query.qcore.Query.replace",
         "whoosh.query.ranges.RangeMixin.overlaps", "whoosh.query.ranges.RangeMixin.merge", "whoosh.query.ranges.TermRange.normalize",
         "whoosh.query.terms.MultiTerm.simplify", "whoosh.query.compound.CompoundQuery.estimate_size", "whoosh.query.wrappers.Not.normalize"]
OUT = "queries deeper than 2 levels or wider than 3 clauses, span/nested/positional queries, leaf vocabulary beyond the 24-leaf table"


def _mk(op):
    nm = "".join(ch if ch.isalnum() else "_" for ch in opname(op)).strip("_").lower()
    name = "c15_flat_" + nm

    @h(bounds="%s over every ordered triple (binary: pair) of the 24-leaf table (terms, boosts, term/numeric ranges with open/exclusive ends, Every, "
              "Every(field), NullQuery, empty And/Or, Not, Prefix, Wildcard, ConstantScore); 9 rewrites + idempotence + size estimates; 128 document types"
              % opname(op),
       funcs=FUNCS, examples=[dict(a=0, b=1, c=2), dict(a=13, b=0, c=16)], outside=OUT, timeout=dict(quick=900, thorough=1800))
    def harness(a: int, b: int, c: int) -> Optional[str]:
        """
        pre: 0 <= a < NLEAF and 0 <= b < NLEAF and 0 <= c < CMAX
        post: _ is None
        """
        with notrace():
            cc = pick(c, CMAX) if op < len(COMPOUND) else 0
            r, nontrivial = run_tree(op, pick(a, NLEAF), pick(b, NLEAF), cc if op < len(COMPOUND) else 16, 0, 3)
        tick(nontrivial)
        return r
    harness.__name__ = harness.__qualname__ = name
    return name, harness


CMAX = tiered(3, 8)    # third clause: quick uses the first 3 leaves + (for binary ops) none; thorough the first 8
for _op in range(NOP):
    _n, _f = _mk(_op)
    if _op >= len(COMPOUND):
        _f.__doc__ = _f.__doc__.replace("0 <= c < CMAX", "c == 0")
    globals()[_n] = _f

DL = [0, 4, 13, 14, 16, 21, 5, 9, 10, 1]    # leaves used at depth 2 (quick: the first 4; thorough: the first 6)
NDL = tiered(4, 6)
OP2 = [0, 1, 5, 8, 2, 3, 4, 6, 7, 9, 10, 11]   # inner operators (quick: And, Or, AndNot, Not; thorough: the first 6)
NOP2 = tiered(4, 6)
NPOS = 2


@h(bounds="op(.., op2(a, b), ..) for op over all 12 operators, op2 over 4 (thorough 6), a, b over 4 (thorough 6) leaves (term, term range, Every, "
          "Every(f), NullQuery, Not, numeric ranges), inner position 0..1, 1 (thorough 2) sibling patterns",
   funcs=FUNCS, examples=[dict(op=0, op2=1, a=0, b=1, c=0, pos=1)], outside=OUT, timeout=dict(quick=900, thorough=6000))
def c15_nested(op: int, op2: int, a: int, b: int, c: int, pos: int) -> Optional[str]:
    """
    pre: 0 <= op < NOP and 0 <= op2 < NOP2 and 0 <= a < NDL and 0 <= b < NDL and 0 <= c < CN and 0 <= pos < NPOS
    post: _ is None
    """
    with notrace():
        r, nontrivial = run_tree(pick(op, NOP), DL[pick(a, NDL)], DL[pick(b, NDL)], pick(c, CN), OP2[pick(op2, NOP2)], pick(pos, NPOS))
    tick(nontrivial)
    return r


CN = tiered(1, 2)


def _witness(name, kfid, mk):
    @h(bounds="witness of known finding %s (concrete)" % kfid, funcs=FUNCS, examples=[], timeout=dict(quick=60, thorough=60))
    def w(k: int) -> Optional[str]:
        """
        pre: k == 0
        post: _ is None
        """
        with notrace():
            q = mk()
            r, _ = check_rewrites(q, "%s witness %r" % (kfid, q), allow_known=False)
        tick(True)
        return r
    w.__name__ = w.__qualname__ = name
    return w


c15_kf_and_ranges = _witness("c15_kf_and_ranges", "KF-C15-2",
                             lambda: query.And([query.TermRange("u", u"a", u"c"), query.TermRange("u", u"b", u"c")]))
c15_kf_not_null = _witness("c15_kf_not_null", "KF-C15-3", lambda: query.Not(query.NullQuery))


@h(bounds="witness of known finding KF-C15-1: And([Every('f'), Term('f','a')]).normalize()", funcs=FUNCS, examples=[],
   timeout=dict(quick=60, thorough=60))
def c15_kf_every_field(k: int) -> Optional[str]:
    """
    pre: k == 0
    post: _ is None
    """
    with notrace():
        q = query.And([query.Every("f"), query.Term("f", u"a")])
        r, _ = check_rewrites(q, "KF-C15-1 witness %r" % (q,), allow_known=False)
    tick(True)
    return r
