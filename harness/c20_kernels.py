"""C20-H1: number codecs (varints, zig-zag, delta, GInts, Simple16, GrowableArray type choice) - E2 pybmc.

The real functions are interpreted from their current source.  Byte strings are modelled as Python
lists of (symbolic) byte values: `array('B')`, `array_tobytes`, `ord`, `struct` packers and the file
object are the only stubs (listed per job).  Before the symbolic run every job pushes fixed boundary
vectors through the *unstubbed* real functions (translator validation, DESIGN 2.3); a failure there is
a concrete violation by itself.
"""
import array as _array
import io

import z3

from vk.pybmc import Engine, Unsupported, Gen, is_sym
from vk.smt import q
from whoosh.util import varints as V
from whoosh.util import numlists as NL
from whoosh import system as SY
from whoosh import compat as CP
from whoosh.filedb.structfile import StructFile


# ------------------------------------------------------------------ replay functions (real code, concrete)
def rp_varint(i):
    bs = V.varint(i)
    if not isinstance(bs, bytes):
        return "varint(%d) returned %r" % (i, type(bs))
    pos = [0]

    def readfn(n):
        r = bs[pos[0]:pos[0] + n]
        pos[0] += n
        return r
    back = V.read_varint(readfn)
    if back != i:
        return "read_varint(varint(%d)) = %d" % (i, back)
    if pos[0] != len(bs):
        return "read_varint consumed %d of %d bytes" % (pos[0], len(bs))
    want = max(1, (i.bit_length() + 6) // 7)
    if len(bs) != want:
        return "varint(%d) has %d bytes, minimal is %d" % (i, len(bs), want)
    if any(b < 0x80 for b in bs[:-1]) or bs[-1] >= 0x80:
        return "continuation bits wrong in %r" % (bs,)
    return None


def rp_svarint(i):
    f = StructFile(io.BytesIO())
    f.write_svarint(i)
    f.seek(0)
    back = f.read_svarint()
    if back != i:
        return "read_svarint(write_svarint(%d)) = %d" % (i, back)
    return None


def rp_delta(nums):
    enc = list(NL.delta_encode(nums))
    dec = list(NL.delta_decode(enc))
    if dec != list(nums):
        return "delta round trip %r -> %r -> %r" % (nums, enc, dec)
    return None


def rp_numlist(clsname, nums):
    enc = getattr(NL, clsname)()
    f = StructFile(io.BytesIO())
    enc.write_nums(f, list(nums))
    f.seek(0)
    back = list(enc.read_nums(f, len(nums)))
    if back != list(nums):
        return "%s round trip %r -> %r" % (clsname, nums, back)
    return None


def rp_growable(inittype, first, n):
    g = NL.GrowableArray(inittype)
    for x in first:
        g.append(x)
    g.append(n)
    if list(g) != list(first) + [n]:
        return "GrowableArray(%r) %r + [%d] -> %r" % (inittype, first, n, list(g))
    return None


def _vectors(rep, name, fn, argsets):
    ok = True
    for args in argsets:
        call = "%s(%s)" % (fn.__name__, ", ".join(repr(a) for a in args))
        try:
            r = fn(*args)
        except Exception as e:  # noqa
            r = "raised %s: %s" % (type(e).__name__, e)
        if r is not None:
            rep.violation(name + " vector", call, str(r)[:200])
            ok = False
    rep.queries += len(argsets)
    return ok


# ------------------------------------------------------------------ stubs
def _stub_array(eng, tc, init=()):
    return list(init)


def _stub_tobytes(eng, a):
    return list(a)


def _stub_ord(eng, x):
    if isinstance(x, (list, tuple)):
        assert len(x) == 1
        return x[0]
    if is_sym(x):
        return x
    if isinstance(x, int):
        return x
    return ord(x)


BYTE_STUBS = {_array.array: _stub_array, CP.array_tobytes: _stub_tobytes, ord: _stub_ord}
BYTE_STUB_NOTE = ["stub: array('B') -> python list of byte terms; array_tobytes -> identity; ord(one byte) -> its value"]


class ListReader(object):
    def __init__(self, data):
        self.data = list(data)
        self.pos = 0

    def read(self, n):
        r = self.data[self.pos:self.pos + n]
        self.pos += n
        return r


# ------------------------------------------------------------------ varint
@q(bounds="all 0 <= i < 2^64 (<=10 bytes, unwinding asserted); path forking on the byte count; i<512 (cache) by complete case split",
   funcs=["whoosh.util.varints._varint", "whoosh.util.varints.varint", "whoosh.util.varints.read_varint"], stubs=BYTE_STUB_NOTE)
def c20_varint(rep):
    _vectors(rep, "varint", rp_varint, [(0,), (1,), (127,), (128,), (511,), (512,), (16383,), (16384,), (2 ** 32,), (2 ** 64 - 1,)])
    eng = Engine(width=80, mode="fork", unwind=12, stubs=BYTE_STUBS, timeout_ms=60000)
    i = eng.sym_int("i")
    pre = [i >= 512, i < (1 << 64)]
    npaths = 0
    bad = 0
    try:
        for pc, bs in eng.paths(V._varint, [i], pre=pre):
            npaths += 1
            rd = ListReader(bs)
            sub = Engine(width=80, mode="fork", unwind=12, stubs=BYTE_STUBS)
            for c in pc:
                sub.assume(c)
            results = list(sub.paths(V.read_varint, [rd.read]))
            if len(results) != 1:
                rep.inconclusive("varint decode", "decoder forks %d ways on a fixed encoder path" % len(results))
                bad += 1
                continue
            _, back = results[0]
            n = len(bs)
            conds = [sub.to_term(back) != i, z3.BoolVal(rd.pos != n)]
            # minimal length: n bytes  <=>  2^(7(n-1)) <= i < 2^(7n)
            conds.append(z3.Not(z3.And(i >= (1 << (7 * (n - 1))), z3.Or(z3.BoolVal(7 * n >= 64), i < (1 << min(7 * n, 70))))))
            for k, b in enumerate(bs):
                bt = eng.to_term(b)
                conds.append((bt < 0x80) if k < n - 1 else (bt >= 0x80))
                conds.append(z3.Or(bt < 0, bt > 255))
            side = [o for _, o in eng.obligations] + [o for _, o in sub.obligations]
            r = sub.check(z3.Or(*(conds + side)))
            rep.absorb(sub)
            if r == z3.sat:
                rep.violation("varint round trip (%d bytes)" % n, "rp_varint(%d)" % sub.last_model.eval(i, model_completion=True).as_long())
                bad += 1
            elif r != z3.unsat:
                rep.inconclusive("varint round trip (%d bytes)" % n, "unknown")
                bad += 1
            eng.obligations = []
    except Unsupported as e:
        rep.inconclusive("varint encode", "pybmc: %s" % e)
        return
    rep.absorb(eng)
    # cache branch of varint(): complete case split over the 512 cached values, real function
    for k in range(512):
        r = rp_varint(k)
        rep.queries += 1
        if r is not None:
            rep.violation("varint cache", "rp_varint(%d)" % k, r)
            bad += 1
    if V._varint_cache_size != 512 or len(V._varint_cache) != 512:
        rep.inconclusive("varint cache", "cache size changed; harness bound is 512")
        bad += 1
    if not bad:
        rep.held("varint/read_varint round trip, minimal length, continuation bits: %d encoder paths (byte counts) + 512 cached values" % npaths)
    rep.sample({"function": "varint", "paths": npaths})


@q(bounds="all -2^63 <= i < 2^63", funcs=["whoosh.util.varints.signed_varint", "whoosh.util.varints.decode_signed_varint"],
   stubs=["varint/read_varint replaced by identity (their round trip is c20_varint)"])
def c20_svarint(rep):
    _vectors(rep, "svarint", rp_svarint, [(0,), (-1,), (1,), (-64,), (64,), (-2 ** 63,), (2 ** 63 - 1,), (255,), (-256,)])
    eng = Engine(width=80, mode="merge", stubs={V.varint: lambda e, x: x})
    i = eng.sym_int("i")
    pre = [i >= -(1 << 63), i < (1 << 63)]
    for p in pre:
        eng.solver.add(p)
    try:
        z = eng.call(V.signed_varint, [i], {})
        back = eng.call(V.decode_signed_varint, [z], {})
    except Unsupported as e:
        rep.inconclusive("svarint", "pybmc: %s" % e)
        return
    zt, bt = eng.to_term(z), eng.to_term(back)
    side = [o for _, o in eng.obligations]
    goals = [("round trip", bt != i), ("zig-zag is a non-negative 64-bit varint argument", z3.Or(zt < 0, zt >= (1 << 64)))]
    if side:
        goals.append(("no-overflow", z3.Or(*side)))
    for name, badc in goals:
        r = eng.check(badc)
        if r == z3.unsat:
            rep.held("signed_varint " + name)
        elif r == z3.sat:
            rep.violation("signed_varint " + name, "rp_svarint(%d)" % eng.last_model.eval(i, model_completion=True).as_signed_long())
        else:
            rep.inconclusive("signed_varint " + name, "unknown")
    rep.absorb(eng)
    rep.sample({"function": "signed_varint", "domain": "[-2^63, 2^63)"})


# ------------------------------------------------------------------ delta
@q(bounds="lists of length 0..6 of arbitrary (unbounded, Int theory) integers", funcs=["whoosh.util.numlists.delta_encode", "whoosh.util.numlists.delta_decode"])
def c20_delta(rep):
    _vectors(rep, "delta", rp_delta, [([],), ([0],), ([5, 5, 7],), ([3, 1, 2],), ([2 ** 70, 1],)])
    for n in range(0, 7):
        eng = Engine(width=None, mode="merge")
        xs = [eng.sym_int("x%d" % k) for k in range(n)]
        try:
            enc = eng.call(NL.delta_encode, [xs], {})
            dec = eng.call(NL.delta_decode, [enc], {})
        except Unsupported as e:
            rep.inconclusive("delta len %d" % n, "pybmc: %s" % e)
            continue
        vals = [v for _, v in dec.items]
        if len(vals) != n or any(not g.is_true for g, _ in dec.items):
            rep.inconclusive("delta len %d" % n, "unexpected shape")
            continue
        if n == 0:
            rep.held("delta round trip len 0")
            continue
        r = eng.check(z3.Or(*[eng.to_term(v) != x for v, x in zip(vals, xs)]))
        rep.absorb(eng)
        if r == z3.unsat:
            rep.held("delta round trip len %d" % n)
        elif r == z3.sat:
            m = eng.last_model
            rep.violation("delta round trip len %d" % n, "rp_delta(%r)" % [m.eval(x, model_completion=True).as_long() for x in xs])
        else:
            rep.inconclusive("delta len %d" % n, "unknown")
    rep.sample({"function": "delta_encode/delta_decode", "lengths": "0..6"})


# ------------------------------------------------------------------ GrowableArray._retype
_TC = {"B": (0, 255), "H": (0, 2 ** 16 - 1), "i": (-2 ** 31, 2 ** 31 - 1), "I": (0, 2 ** 32 - 1), "q": (-2 ** 63, 2 ** 63 - 1)}


@q(bounds="every n in [0, 2^63) that overflows the current typecode (B,H,i,I), allow_longs=True; allow_longs=False: n < 2^32",
   funcs=["whoosh.util.numlists.GrowableArray._retype", "whoosh.util.numlists.GrowableArray.append"],
   stubs=["array(newtype, iter) -> records the chosen typecode"])
def c20_growable(rep):
    _vectors(rep, "GrowableArray", rp_growable, [("B", [1, 255], 256), ("H", [65535], 65536), ("B", [3], 2 ** 31), ("B", [3], 2 ** 32 - 1),
                                                 ("B", [3], 2 ** 32), ("H", [7], 2 ** 63 - 1), ("B", [200], 2 ** 31 - 1)])
    bad = 0
    for old in ("B", "H", "i", "I"):
        for allow in (True, False):
            chosen = []

            def stub_array(eng, tc, init=()):
                chosen.append(tc)
                return []
            eng = Engine(width=80, mode="fork", stubs={_array.array: stub_array, iter: lambda e, x: x})
            n = eng.sym_int("n")
            hi = (1 << 63) if allow else (1 << 32)
            if _TC[old][1] + 1 >= hi:
                continue
            pre = [n > _TC[old][1], n < hi]

            class FakeSelf(object):
                pass
            fs = FakeSelf()
            fs.array = []
            fs._allow_longs = allow
            try:
                for pc, _ in eng.paths(NL.GrowableArray._retype, [fs, n], pre=pre):
                    tc = chosen[-1]
                    lo_, hi_ = _TC[tc]
                    # the new type must hold n and everything the old type held
                    r = eng.check(*(pc + [z3.Or(n < lo_, n > hi_)]))
                    keeps = lo_ <= _TC[old][0] or _TC[old][0] >= 0 and lo_ <= 0
                    keeps = keeps and hi_ >= _TC[old][1]
                    if r == z3.sat:
                        rep.violation("GrowableArray retype from %s" % old, "rp_growable(%r, [1], %d)" % (old, eng.last_model.eval(n, model_completion=True).as_long()))
                        bad += 1
                    elif r != z3.unsat:
                        rep.inconclusive("GrowableArray retype", "unknown")
                        bad += 1
                    if not keeps and old != "i":
                        rep.violation("GrowableArray retype %s->%s narrows" % (old, tc), "rp_growable(%r, [%d], %d)" % (old, _TC[old][1], _TC[old][1] + 1))
                        bad += 1
            except Unsupported as e:
                if "raise@" in str(e) and not allow:
                    continue
                rep.inconclusive("GrowableArray._retype(%s)" % old, "pybmc: %s" % e)
                bad += 1
            rep.absorb(eng)
    if not bad:
        rep.held("GrowableArray._retype picks a typecode containing n and the old range, from B/H/i/I, allow_longs in {T,F}")
    rep.sample({"function": "GrowableArray._retype", "from": ["B", "H", "i", "I"]})


# ------------------------------------------------------------------ GInts / Simple16 over a symbolic byte file
class SymFile(object):
    """List-of-byte-terms stand-in for StructFile (write side appends, read side consumes)."""
    def __init__(self, eng):
        self.eng = eng
        self.data = []
        self.pos = 0

    # write side
    def write(self, bs):
        self.data.extend(list(bs))

    def write_byte(self, n):
        self.data.append(n)

    def write_uint_le(self, n):
        t = self.eng.to_term(n)
        self.data.extend([(t >> (8 * k)) & 0xFF for k in range(4)])

    # read side
    def read(self, n):
        r = self.data[self.pos:self.pos + n]
        self.pos += n
        return r

    def read_byte(self):
        return self.read(1)[0]

    def _le(self, n):
        bs = self.read(n)
        acc = self.eng.to_term(0)
        for k, b in enumerate(bs):
            acc = acc | (self.eng.to_term(b) << (8 * k))
        return acc

    def read_ushort_le(self):
        return self._le(2)

    def read_uint_le(self):
        return self._le(4)


def _pack_le(nbytes):
    def stub(eng, v):
        t = eng.to_term(v)
        eng.oblige("pack-range", z3.Or(t < 0, t >= (1 << (8 * nbytes))))
        return [(t >> (8 * k)) & 0xFF for k in range(nbytes)]
    return stub


def _unpack_uint_le(eng, bs):
    bs = list(bs)
    if len(bs) != 4:
        raise Unsupported("unpack_uint_le of %d bytes" % len(bs))
    acc = eng.to_term(0)
    for k, b in enumerate(bs):
        acc = acc | (eng.to_term(b) << (8 * k))
    return (acc,)


FILE_STUBS = {SY.pack_byte: _pack_le(1), SY.pack_ushort_le: _pack_le(2), SY.pack_uint_le: _pack_le(4),
              SY.unpack_uint_le: _unpack_uint_le}
FILE_STUB_NOTE = ["stub: StructFile -> list of byte terms with little-endian read/write helpers; struct pack/unpack of "
                  "byte/ushort/uint (little endian) -> shifts and masks with a range obligation"]


def _numlist_roundtrip(rep, clsname, n, maxv, max_paths=20000):
    enc = getattr(NL, clsname)()
    eng = Engine(width=48, mode="fork", unwind=40, stubs=dict(FILE_STUBS), timeout_ms=60000)
    eng.native_types = (SymFile,)
    xs = [eng.sym_int("x%d" % k) for k in range(n)]
    pre = []
    for x in xs:
        pre += [x >= 0, x <= maxv]
    box = {}

    def whole(nums):
        f = SymFile(eng)
        box["f"] = f
        enc.write_nums(f, nums)
        f.pos = 0
        return list_of(enc.read_nums(f, len(nums)))

    def list_of(g):   # executed natively: g is a pybmc Gen in fork mode (all guards true)
        return [v for _, v in g.items]
    eng.stubs[list_of] = lambda e, g: [v for _, v in g.items]
    npaths = 0
    bad = 0
    try:
        for pc, res in eng.paths(whole, [xs], pre=pre, max_paths=max_paths):
            npaths += 1
            if not isinstance(res, list):
                rep.violation("%s len %d" % (clsname, n), "rp_numlist(%r, %r)" % (clsname, _model_list(eng, pc, xs)), "path raised: %s" % (res,))
                bad += 1
                continue
            conds = [z3.BoolVal(len(res) != n)]
            conds += [eng.to_term(v) != x for v, x in zip(res, xs)]
            conds.append(z3.BoolVal(box["f"].pos != len(box["f"].data)))
            conds += [o for _, o in eng.obligations]
            eng.obligations = []
            r = eng.check(*(pc + [z3.Or(*conds)]))
            if r == z3.sat:
                rep.violation("%s round trip len %d" % (clsname, n), "rp_numlist(%r, %r)" % (clsname, [eng.last_model.eval(x, model_completion=True).as_long() for x in xs]))
                bad += 1
                break
            elif r != z3.unsat:
                rep.inconclusive("%s round trip len %d" % (clsname, n), "unknown")
                bad += 1
    except Unsupported as e:
        rep.inconclusive("%s len %d" % (clsname, n), "pybmc: %s" % e)
        bad += 1
    rep.absorb(eng)
    return npaths, bad


def _model_list(eng, pc, xs):
    r = eng.check(*pc)
    if r != z3.sat:
        return []
    return [eng.last_model.eval(x, model_completion=True).as_long() for x in xs]


@q(bounds="GInts: lists of 1..5 numbers in [0, 2^32) (one full 4-group + leftover); all size-class combinations by path forking",
   funcs=["whoosh.util.numlists.GInts.write_nums", "whoosh.util.numlists.GInts.read_nums"], stubs=FILE_STUB_NOTE)
def c20_gints(rep):
    _vectors(rep, "GInts", rp_numlist, [("GInts", [0]), ("GInts", [255, 256, 65535, 65536]), ("GInts", [16777215, 16777216, 2 ** 32 - 1, 1, 70000])])
    total = 0
    bad = 0
    for n in (1, 2, 5):
        p, b = _numlist_roundtrip(rep, "GInts", n, 2 ** 32 - 1)
        total += p
        bad += b
    if not bad:
        rep.held("GInts write_nums/read_nums round trip, lengths 1,2,5: %d paths" % total)
    rep.sample({"function": "GInts", "paths": total})


@q(bounds="Simple16: lists of 1..3 numbers in [0, 2^28) (thorough: ..4); selector choice by path forking",
   funcs=["whoosh.util.numlists.Simple16.write_nums", "whoosh.util.numlists.Simple16._compress",
          "whoosh.util.numlists.Simple16.read_nums", "whoosh.util.numlists.Simple16._decompress"], stubs=FILE_STUB_NOTE,
   timeout=dict(quick=200, thorough=900))
def c20_simple16(rep):
    import os
    _vectors(rep, "Simple16", rp_numlist, [("Simple16", [0]), ("Simple16", [1] * 28), ("Simple16", [2 ** 28 - 1, 1, 3, 0, 16383, 16384]),
                                           ("Simple16", list(range(30)))])
    total = 0
    bad = 0
    top = 4 if os.environ.get("VERIF_TIER") == "thorough" else 3
    for n in range(1, top + 1):
        p, b = _numlist_roundtrip(rep, "Simple16", n, 2 ** 28 - 1)
        total += p
        bad += b
    if not bad:
        rep.held("Simple16 write_nums/read_nums round trip, lengths 1..%d: %d paths" % (top, total))
    rep.sample({"function": "Simple16", "paths": total})
