"""C07: deletes, updates and cancel against a dictionary model (E1, symbolic operation codes).

A program is a list of symbolic operation codes executed on a real index (RamStorage, W3 codec,
blocklimit 2); after every commit all read APIs must agree with the model.  Programs that write or
delete-after-write the same key twice inside one writer are outside the stated key discipline and are
skipped (counted as trivial paths)."""
import random
from typing import List, Optional

from vk.prelude import THOROUGH, h, tick, tiered, concrete_arrays, notrace, sym_true
from whoosh import fields, query, writing
from whoosh.filedb.filestore import RamStorage
from whoosh.codec.whoosh3 import W3Codec

concrete_arrays()

KEYS = [u"a", u"b"]
OPS = ["add a", "add b", "update a", "update b", "delete_by_term a", "delete_by_term b", "delete_by_query a",
       "delete_document(first live a)", "commit", "commit(optimize)", "commit(merge=False)", "cancel"]
NOPS = len(OPS)
L = tiered(3, 4)


def schema(numeric):
    if numeric:
        kf = fields.NUMERIC(int, bits=32, stored=True, unique=True)
    else:
        kf = fields.ID(stored=True, unique=True)
    return fields.Schema(k=kf, v=fields.STORED, t=fields.TEXT, s=fields.NUMERIC(int, sortable=True, stored=True), g=fields.KEYWORD(stored=True))


def kval(numeric, key):
    return (ord(key) - 96) if numeric else key


def pick(x, n):
    for v in range(n - 1):
        if sym_true(lambda: x == v):
            return v
    return n - 1


class Model(object):
    def __init__(self):
        self.committed = []        # list of (key, version) in document order
        self.reset_pending()

    def reset_pending(self):
        self.adds = []
        self.dels = set()          # indexes into committed
        self.written = set()       # keys written (added/updated/deleted) in this writer


def check_index(ix, model, numeric, where):
    live = list(model.committed)
    with ix.searcher() as s:
        r = s.reader()
        if r.doc_count() != len(live):
            return "%s: doc_count() = %d, model has %d live documents %r" % (where, r.doc_count(), len(live), live)
        got = sorted((d["k"], d["v"]) for d in r.all_stored_fields())
        want = sorted((kval(numeric, k), v) for k, v in live)
        if got != want:
            return "%s: stored documents %r, model %r" % (where, got, want)
        ev = sorted((h["k"], h["v"]) for h in s.search(query.Every(), limit=None))
        if ev != want:
            return "%s: Every() returns %r, model %r" % (where, ev, want)
        for key in KEYS:
            kv = kval(numeric, key)
            tq = query.Term("k", r.schema["k"].to_bytes(kv) if numeric else kv)
            hits = sorted((h["k"], h["v"]) for h in s.search(tq, limit=None))
            wantk = sorted((kval(numeric, k), v) for k, v in live if k == key)
            if hits != wantk:
                return "%s: Term(k=%r) returns %r, model %r" % (where, kv, hits, wantk)
            nots = sorted((h["k"], h["v"]) for h in s.search(query.Not(tq), limit=None))
            wantn = sorted((kval(numeric, k), v) for k, v in live if k != key)
            if nots != wantn:
                return "%s: Not(Term(k=%r)) returns %r, model %r" % (where, kv, nots, wantn)
            if len(wantk) > 1:
                return "%s: model itself has %d live documents for key %r (harness error)" % (where, len(wantk), key)
        # postings of the content term shared by all documents
        ids = []
        try:
            m = r.postings("t", u"common")
            while m.is_active():
                ids.append(r.stored_fields(m.id())["v"])
                m.next()
        except Exception as e:  # term may be absent when the index is empty
            if live:
                return "%s: postings('t','common') raised %s: %s" % (where, type(e).__name__, e)
        if sorted(ids) != sorted(v for _, v in live):
            return "%s: postings list versions %r, model %r" % (where, sorted(ids), sorted(v for _, v in live))
        srt = [h["v"] for h in s.search(query.Every(), sortedby="s", limit=None)]
        if srt != sorted(v for _, v in live):
            return "%s: sorted search %r, model %r" % (where, srt, sorted(v for _, v in live))
        groups = s.search(query.Every(), groupedby="g", limit=None).groups("g")
        gm = {}
        for k, v in live:
            gm.setdefault(u"g" + k, 0)
            gm[u"g" + k] += 1
        if dict((k, len(v)) for k, v in groups.items()) != gm:
            return "%s: facet groups %r, model %r" % (where, dict((k, len(v)) for k, v in groups.items()), gm)
    return None


def run_program(codes, numeric, prepop):
    random.seed(5)
    st = RamStorage()
    ix = st.create_index(schema(numeric))
    model = Model()
    version = [0]

    def doc(key):
        version[0] += 1
        return dict(k=kval(numeric, key), v=version[0], t=u"common " + key, s=version[0], g=u"g" + key), version[0]

    if prepop == 2:
        # both keys in one segment, so that successive deletions hit the same segment
        w = ix.writer(codec=W3Codec(blocklimit=2))
        for key in KEYS:
            d, v = doc(key)
            w.add_document(**d)
            model.committed.append((key, v))
        w.commit()
    elif prepop:
        for key in KEYS:
            w = ix.writer(codec=W3Codec(blocklimit=2))
            d, v = doc(key)
            w.add_document(**d)
            w.commit(merge=False)
            model.committed.append((key, v))
    held = ix.searcher()        # a searcher held across the whole program and refreshed after every commit/cancel
    w = None
    nontrivial = False
    steps = []
    for step, c in enumerate(list(codes) + [8]):     # a final commit is always appended
        name = OPS[c]
        steps.append(name)
        where = "after %r" % (steps,)
        if w is None:
            w = ix.writer(codec=W3Codec(blocklimit=2))
            model.reset_pending()
        try:
            if c in (0, 1):
                key = KEYS[c]
                if key in model.written or any(k == key and i not in model.dels for i, (k, _) in enumerate(model.committed)):
                    return None, False        # adding a second live document for a key: outside the discipline
                d, v = doc(key)
                w.add_document(**d)
                model.adds.append((key, v))
                model.written.add(key)
            elif c in (2, 3):
                key = KEYS[c - 2]
                if key in model.written:
                    return None, False
                d, v = doc(key)
                w.update_document(**d)
                for i, (k, _) in enumerate(model.committed):
                    if k == key:
                        model.dels.add(i)
                model.adds.append((key, v))
                model.written.add(key)
                nontrivial = True
            elif c in (4, 5, 6):
                key = KEYS[0 if c == 6 else c - 4]
                if key in model.written:
                    return None, False
                kv = kval(numeric, key)
                expect = len([1 for i, (k, _) in enumerate(model.committed) if k == key and i not in model.dels])
                if c == 6:
                    n = w.delete_by_query(query.Term("k", ix.schema["k"].to_bytes(kv) if numeric else kv))
                else:
                    n = w.delete_by_term("k", kv)
                if n != expect:
                    return "%s: %s returned %r, model deletes %d documents" % (where, name, n, expect), True
                for i, (k, _) in enumerate(model.committed):
                    if k == key:
                        model.dels.add(i)
                model.written.add(key)
                nontrivial = True
            elif c == 7:
                if u"a" in model.written:
                    return None, False
                target = [i for i, (k, _) in enumerate(model.committed) if k == u"a" and i not in model.dels]
                if not target:
                    return None, False
                with ix.searcher() as s:
                    dn = [n for n in s.reader().all_doc_ids() if s.stored_fields(n)["v"] == model.committed[target[0]][1]]
                w.delete_document(dn[0])
                model.dels.add(target[0])
                model.written.add(u"a")
                nontrivial = True
            elif c in (8, 9, 10):
                if c == 8:
                    w.commit()
                elif c == 9:
                    w.commit(optimize=True)
                else:
                    w.commit(merge=False)
                w = None
                model.committed = [kv_ for i, kv_ in enumerate(model.committed) if i not in model.dels] + model.adds
                model.reset_pending()
                err = check_index(ix, model, numeric, where)
                if err:
                    return err, True
                held = held.refresh()
                got = sorted((d_["k"], d_["v"]) for d_ in held.reader().all_stored_fields())
                want = sorted((kval(numeric, k_), v_) for k_, v_ in model.committed)
                if got != want or held.doc_count() != len(want):
                    return "%s: the held searcher after refresh() holds %r (doc_count %d), model %r" % (where, got, held.doc_count(), want), True
                if c == 9 and ix.reader().has_deletions():
                    return "%s: deletions remain after optimize" % where, True
            elif c == 11:
                w.cancel()
                w = None
                model.reset_pending()
                err = check_index(ix, model, numeric, where + " (cancelled)")
                if err:
                    return err, True
                nontrivial = True
        except Exception as e:  # noqa
            return "%s: %s raised %s: %s" % (where, name, type(e).__name__, e), True
    return None, nontrivial


FUNCS = ["whoosh.writing.SegmentWriter.add_document", "whoosh.writing.IndexWriter.update_document", "whoosh.writing.IndexWriter.delete_by_term",
         "whoosh.writing.IndexWriter.delete_by_query", "whoosh.writing.SegmentWriter.delete_document", "whoosh.writing.SegmentWriter.commit",
         "whoosh.writing.SegmentWriter.cancel", "whoosh.codec.whoosh3.W3Segment", "whoosh.reading.SegmentReader", "whoosh.searching.Searcher"]


def _mk(numeric, prepop):
    name = "c07_prog_%s_%s" % ("numeric" if numeric else "id", "prepop1seg" if prepop == 2 else ("prepop" if prepop else "empty"))

    @h(bounds="all programs of %d operations over %d operation kinds (add/update/delete_by_term/delete_by_query/delete_document on keys a,b; "
              "commit, optimize, merge=False, cancel) + final commit; unique field %s; index %s; checked after every commit/cancel"
              % (L, NOPS, "NUMERIC" if numeric else "ID", "pre-populated with a and b in one segment" if prepop == 2 else ("pre-populated with a and b in two segments" if prepop else "initially empty")),
       funcs=FUNCS, examples=[dict(codes=[2, 8, 4][:L] + [0] * max(0, L - 3)), dict(codes=[0, 11, 1][:L] + [8] * max(0, L - 3))],
       outside="more than two keys, several unique fields, add_field/remove_field inside programs, programs outside the key discipline",
       timeout=dict(quick=900, thorough=3000))
    def harness(codes: List[int]) -> Optional[str]:
        """
        pre: len(codes) == L
        pre: all(0 <= c < NOPS for c in codes)
        post: _ is None
        """
        with notrace():
            cs = [pick(sym_true_idx(codes, i), NOPS) for i in range(L)]
            r, nontrivial = run_program(cs, numeric, prepop)
        tick(nontrivial)
        return r
    harness.__name__ = harness.__qualname__ = name
    return name, harness


def sym_true_idx(codes, i):
    """element i of the symbolic list (indexing needs tracing resumed)"""
    from vk.prelude import HAVE_CH
    if HAVE_CH:
        from crosshair.tracers import ResumedTracing, is_tracing
        from crosshair.statespace import optional_context_statespace
        if optional_context_statespace() is not None and not is_tracing():
            with ResumedTracing():
                return codes[i]
    return codes[i]


for _num in (False, True):
    for _pp in (True, False):
        _n, _f = _mk(_num, _pp)
        globals()[_n] = _f
_n, _f = _mk(False, 2)
globals()[_n] = _f


# ------------------------------------------------------------------ several unique fields
K2 = [u"a", u"b", u"c", u"new"]
E2 = [u"x", u"y", u"z", u"new"]


def run_two_unique(k1, e1, k2, e2, same_writer):
    """update_document with two unique fields replaces every committed document that matches on *either* field"""
    random.seed(5)
    ix = RamStorage().create_index(fields.Schema(k=fields.ID(stored=True, unique=True), e=fields.ID(stored=True, unique=True), v=fields.STORED,
                                                 n=fields.NUMERIC(int, stored=True, unique=True)))
    live = []
    w = ix.writer()
    for i, (k, e) in enumerate(zip(K2[:3], E2[:3])):
        w.add_document(k=k, e=e, v=i, n=i)
        live.append((k, e, i, i))
        if i == 1:
            w.commit()
            w = ix.writer()
    w.commit(merge=False)
    ups = [(K2[k1], E2[e1], 10, 1), (K2[k2], E2[e2], 11, 7)]       # the first update also collides on the numeric unique field with document 1
    if same_writer and (ups[0][0] == ups[1][0] or ups[0][1] == ups[1][1]):
        return None, False       # a writer's deletes only reach committed documents: outside the key discipline
    w = None
    for j, (k, e, v, n) in enumerate(ups):
        if w is None:
            w = ix.writer()
        w.update_document(k=k, e=e, v=v, n=n)
        if same_writer:
            # both updates act on the committed state
            pass
        if not same_writer or j == 1:
            w.commit()
            w = None
        if not same_writer:
            live = [d for d in live if d[0] != k and d[1] != e and d[3] != n] + [(k, e, v, n)]
    if same_writer:
        for (k, e, v, n) in ups:
            live = [d for d in live if d[2] >= 10 or (d[0] != k and d[1] != e and d[3] != n)]
        live += ups
    with ix.searcher() as s:
        got = sorted((d["k"], d["e"], d["v"], d["n"]) for d in s.reader().all_stored_fields())
    if got != sorted(live):
        return "updates %r (%s): index holds %r, model %r" % (ups, "one writer" if same_writer else "two commits", got, sorted(live)), True
    return None, True


@h(bounds="index of 3 documents in two segments with unique fields k, e (ID) and n (NUMERIC); two update_document calls whose k and e values are chosen by symbolic "
          "codes among the 3 existing values and a new one (so an update can match 0..3 different committed documents across the unique fields), in one writer or in "
          "two commits; the index holds exactly the documents not matched on any unique field plus the new ones",
   funcs=["whoosh.writing.IndexWriter.update_document", "whoosh.searching.Searcher._find_unique", "whoosh.writing.SegmentWriter.delete_document"],
   examples=[dict(k1=0, e1=1, k2=3, e2=3, sw=False), dict(k1=3, e1=0, k2=1, e2=2, sw=True)], timeout=dict(quick=600, thorough=900),
   outside="more than three unique fields, updates of documents added in the same writer")
def c07_two_unique(k1: int, e1: int, k2: int, e2: int, sw: bool) -> Optional[str]:
    """
    pre: 0 <= k1 < 4 and 0 <= e1 < 4 and 0 <= k2 < 4 and 0 <= e2 < 4
    post: _ is None
    """
    with notrace():
        r, nontrivial = run_two_unique(pick(k1, 4), pick(e1, 4), pick(k2, 4), pick(e2, 4), sym_true(lambda: sw))
    tick(nontrivial)
    return r
