#!/bin/bash
# usage: vk/try_seed.sh <property id> <patch file> [VK_ONLY filter]
# Applies a seeded mutation to a scratch worktree of /repo's HEAD (never to /repo), runs the property's
# quick check against that tree, prints the verdict lines, removes the worktree.
set -u
PID="$1"; PATCH="$2"; ONLY="${3:-}"
WT=$(mktemp -d /tmp/vkseed-XXXXXX)
git -C /repo worktree add -q --detach "$WT" HEAD || exit 2
if ! git -C "$WT" apply "$PATCH"; then echo "PATCH DOES NOT APPLY"; git -C /repo worktree remove --force "$WT"; exit 2; fi
cd "$(dirname "$0")/.."
VK_REPO_SRC="$WT/src" VK_ONLY="$ONLY" timeout 3000 ./check "$PID" --tier quick 2>&1 | grep -a "VIOLATION\|INCONCLUSIVE\|tier=\|job=" | cut -c1-400 | head -12
RC=${PIPESTATUS[0]}
git -C /repo worktree remove --force "$WT"
echo "exit=$RC"
