"""Collates the seed trial logs (vk/try_seed.sh output blocks "=== <seed> vs <property>" ... "exit=<n>") into each
seeded/<id>/meta.json (checks_run, caught_by) and prints the table that DESIGN.md quotes.

usage: record_seed_results.py <log> [<log> ...]     (later logs override earlier ones for the same seed/property pair)
"""
import json
import os
import re
import sys

ROOT = os.path.join(os.path.dirname(os.path.dirname(os.path.abspath(__file__))), "seeded")


def parse(path):
    out = []
    cur = None
    jobs = []
    for line in open(path, errors="replace"):
        m = re.match(r"=== (\S+)(?: vs (\S+))?", line)
        if m:
            cur = (m.group(1), m.group(2) or m.group(1).split("-")[0])
            jobs = []
            continue
        m = re.match(r"\s+job=(\S+)", line)
        if m and cur:
            jobs.append(m.group(1))
        m = re.match(r"exit=(\d+)", line)
        if m and cur:
            out.append((cur[0], cur[1], int(m.group(1)), sorted(set(jobs))))
            cur = None
    return out


def main():
    res = {}
    for p in sys.argv[1:]:
        for seed, prop, code, jobs in parse(p):
            res[(seed, prop)] = (code, jobs)
    seeds = sorted(os.listdir(ROOT))
    rows = []
    for seed in seeds:
        mp = os.path.join(ROOT, seed, "meta.json")
        if not os.path.exists(mp):
            continue
        meta = json.load(open(mp))
        runs = []
        caught = []
        for (s, prop), (code, jobs) in sorted(res.items()):
            if s != seed:
                continue
            verdict = {0: "missed (exit 0)", 1: "caught (VIOLATION, exit 1)", 3: "inconclusive (exit 3)", 2: "patch did not apply"}.get(code, "exit %d" % code)
            runs.append({"check": "./check %s --tier quick" % prop, "result": verdict, "violating_jobs": jobs})
            if code == 1:
                caught.append(prop + (" (" + ", ".join(jobs[:3]) + ")" if jobs else ""))
        if runs:
            meta["checks_run"] = runs
            meta["caught_by"] = caught or None
            json.dump(meta, open(mp, "w"), indent=1)
        else:
            # no trial of this seed in the given logs: keep what an earlier round recorded
            runs = meta.get("checks_run") or []
            caught = meta.get("caught_by") or []
        rows.append((seed, meta.get("needs", "")[:110], "; ".join(caught) if caught else ("not caught" if runs else "not run"), meta.get("note", "")))
    for r in rows:
        print("| %s | %s | %s %s|" % (r[0], r[1].replace("|", "/"), r[2], ("- " + r[3] + " ") if r[3] else ""))


main()
