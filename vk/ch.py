"""Driver: runs the harness jobs of one property, maps verdicts, replays counterexamples,
handles known findings, writes evidence, and sets the exit code (DESIGN 2.2, 2.5, 2.6).

Exit codes: 0 held within bounds; 1 replay-confirmed violation not listed in
known_findings.json; 3 inconclusive / harness error (never reported as success).
"""
import hashlib
import importlib
import json
import os
import shutil
import signal
import subprocess
import sys
import tempfile
import time

VERIF = os.path.dirname(os.path.dirname(os.path.abspath(__file__)))
PY = os.path.join(VERIF, ".venv", "bin", "python")
PLAIN_PY = PY  # plain run (no tracer, solver not in the loop); needs z3 importable for harness modules
NCPU = int(os.environ.get("VK_NCPU", str(os.cpu_count() or 4)))

DEFAULTS = {
    "quick": dict(timeout=150.0, path_timeout=40.0),
    "thorough": dict(timeout=900.0, path_timeout=120.0),
}


def discover(modules, pid, tier):
    """All functions carrying vk_meta in the given modules whose tier list includes tier."""
    jobs = []
    for modname in modules:
        mod = importlib.import_module(modname)
        for name in sorted(vars(mod)):
            fn = getattr(mod, name)
            meta = getattr(fn, "vk_meta", None)
            if not meta or not callable(fn):
                continue
            if getattr(fn, "__name__", name) != name:
                continue
            if tier not in meta["tiers"]:
                continue
            if not name.lower().startswith(pid.lower() + "_"):
                continue
            jobs.append(dict(module=modname, function=name, meta=meta, kind=meta.get("kind", "ch")))
    return jobs


def _launch(job, tier, scratch):
    meta = job["meta"]
    d = DEFAULTS[tier]
    timeout = meta.get("timeout") or d["timeout"]
    if isinstance(timeout, dict):
        timeout = timeout[tier]
    ptimeout = meta.get("path_timeout") or d["path_timeout"]
    if isinstance(ptimeout, dict):
        ptimeout = ptimeout[tier]
    if job["kind"] == "ch":
        # The budgets in the harness files are sized for a machine that runs one check at a time; a budget only matters
        # when a job does not finish (the verdict is then inconclusive), so it is scaled generously to stay robust when
        # several checks share the cores.
        timeout = timeout * float(os.environ.get("VK_TIMEOUT_SCALE", "3"))
    jd = os.path.join(scratch, job["function"])
    os.makedirs(jd, exist_ok=True)
    out = os.path.join(jd, "out.json")
    tickfile = os.path.join(jd, "ticks")
    env = dict(os.environ)
    env.update(TMPDIR=jd, VK_TICKFILE=tickfile, VERIF_TIER=tier, PYTHONHASHSEED=str(int(os.environ.get("VERIF_SEED", "0") or 0) % 4294967296),
               PYTHONPATH=VERIF, PYTHONDONTWRITEBYTECODE="1")
    worker = "ch_worker.py" if job["kind"] == "ch" else "py_worker.py"
    cmd = [PY, os.path.join(VERIF, "vk", worker), job["module"], job["function"],
           str(timeout), str(ptimeout), out]
    log = open(os.path.join(jd, "log"), "wb")
    p = subprocess.Popen(cmd, cwd=VERIF, env=env, stdout=log, stderr=subprocess.STDOUT,
                         start_new_session=True)
    job.update(proc=p, out=out, tickfile=tickfile, dir=jd, t0=time.time(),
               wall_limit=(timeout * 1.5 + 300) if job["kind"] == "ch" else (timeout * 1.5 + 60), timeout=timeout, log=log)


def _killpg(p):
    try:
        os.killpg(p.pid, signal.SIGKILL)
    except Exception:
        pass


def run_jobs(jobs, tier, scratch):
    pending = list(jobs)
    running = []
    done = []
    while pending or running:
        while pending and len(running) < NCPU:
            j = pending.pop(0)
            _launch(j, tier, scratch)
            running.append(j)
        time.sleep(0.2)
        for j in list(running):
            rc = j["proc"].poll()
            if rc is None and time.time() - j["t0"] > j["wall_limit"]:
                _killpg(j["proc"])
                j["proc"].wait()
                j["killed"] = True
                rc = -9
            if rc is not None:
                _killpg(j["proc"])  # stray CrossHair workers
                j["log"].close()
                j["wall_s"] = time.time() - j["t0"]
                running.remove(j)
                done.append(j)
    return done


def replay_call(module, callstr, scratch):
    """Re-execute a harness call concretely in a fresh plain interpreter (no CrossHair, no z3
    in the loop).  Returns (reproduced: bool|None, observed: str)."""
    env = dict(os.environ)
    rd = tempfile.mkdtemp(prefix="replay-", dir=scratch)
    env.update(TMPDIR=rd, PYTHONPATH=VERIF, PYTHONHASHSEED=str(int(os.environ.get("VERIF_SEED", "0") or 0) % 4294967296), PYTHONDONTWRITEBYTECODE="1")
    env.pop("VK_TICKFILE", None)
    try:
        p = subprocess.run([PLAIN_PY, os.path.join(VERIF, "vk", "replay.py"), module, callstr],
                           cwd=VERIF, env=env, capture_output=True, text=True, timeout=600)
    except subprocess.TimeoutExpired:
        return None, "replay timed out"
    finally:
        shutil.rmtree(rd, ignore_errors=True)
    last = [l for l in p.stdout.splitlines() if l.startswith("REPLAY ")]
    if not last:
        return None, "replay harness error: " + (p.stderr or p.stdout)[-1500:]
    tag, _, rest = last[-1][7:].partition(" ")
    return (tag == "FAIL"), rest


def extract_call(message, fname):
    i = message.find("when calling " + fname + "(")
    if i < 0:
        return None
    s = message[i + len("when calling "):]
    # balanced-paren scan (strings may contain parens)
    depth = 0
    instr = None
    esc = False
    for k, ch in enumerate(s):
        if instr:
            if esc:
                esc = False
            elif ch == "\\":
                esc = True
            elif ch == instr:
                instr = None
            continue
        if ch in "'\"":
            instr = ch
        elif ch == "(":
            depth += 1
        elif ch == ")":
            depth -= 1
            if depth == 0:
                return s[:k + 1]
    return None


def load_known():
    p = os.path.join(VERIF, "known_findings.json")
    if not os.path.exists(p):
        return []
    with open(p) as f:
        return json.load(f).get("findings", [])


def read_ticks(path):
    try:
        data = open(path, "rb").read()
    except OSError:
        return 0, 0
    return len(data), data.count(b"1")


def judge(job, pid, scratch, known):
    """Turn a finished job into a list of obligation records."""
    recs = []
    meta = job["meta"]
    paths, nontriv = read_ticks(job["tickfile"])
    base = dict(job=job["function"], module=job["module"], kind=job["kind"], bounds=meta.get("bounds", ""),
                functions=meta.get("funcs", []), stubs=meta.get("stubs", []), outside=meta.get("outside", ""),
                wall_s=round(job.get("wall_s", 0), 2), paths=paths, nontrivial=nontriv)
    try:
        res = json.load(open(job["out"]))
    except Exception:
        res = None
    if res is None:
        why = "killed at wall limit" if job.get("killed") else "worker produced no result"
        try:
            why += ": " + open(os.path.join(job["dir"], "log"), "r", errors="replace").read()[-800:]
        except Exception:
            pass
        recs.append(dict(base, verdict="inconclusive", detail=why))
        return recs
    base["cpu_s"] = round(res.get("cpu_s", 0), 2)
    base["repo_src"] = res.get("repo_src")
    base["examples_run"] = res.get("examples", [])
    base["queries"] = res.get("queries", 0)
    base["solver_s"] = round(res.get("solver_s", 0.0), 3)
    if res.get("error"):
        recs.append(dict(base, verdict="inconclusive", detail="harness error: " + res["error"][-1500:]))
        return recs
    cands = []   # (callstr, message)
    for ex in res.get("example_failures", []):
        cands.append((ex["call"], "example failed: " + ex["observed"]))
    msgs = res.get("messages", [])
    if not msgs and not cands and job["kind"] == "ch":
        recs.append(dict(base, verdict="inconclusive", detail="no verdict from CrossHair"))
        return recs
    verdicts = []
    for m in msgs:
        st = m["state"]
        if st == "CONFIRMED":
            verdicts.append(("held", m["message"]))
        elif st in ("POST_FAIL", "EXEC_ERR", "POST_ERR"):
            call = m.get("call") or extract_call(m["message"], job["function"])
            if call is None:
                verdicts.append(("inconclusive", "counterexample without parsable call: " + m["message"][:500]))
            else:
                cands.append((call, m["message"]))
        elif st == "HELD":          # py-worker obligations
            verdicts.append(("held", m["message"]))
        elif st == "INCONCLUSIVE":
            verdicts.append(("inconclusive", m["message"]))
        else:
            verdicts.append(("inconclusive", st + ": " + m["message"][:500]))
    for call, msg in cands:
        mod = job["module"]
        if isinstance(call, dict):
            mod, call = call["module"], call["call"]
        ok, observed = replay_call(mod, call, scratch)
        if ok is True:
            kf = match_known(known, pid, job["function"], call, observed)
            if kf:
                verdicts.append(("known", "KNOWN-FINDING: property=%s %s" % (pid, kf["what"])))
            else:
                rp = write_replay(pid, job, mod, call, msg, observed)
                verdicts.append(("violation", dict(call=call, message=msg[:1500], observed=observed[:1500], replay=rp)))
        elif ok is False:
            verdicts.append(("inconclusive", "counterexample did not reproduce concretely (engine artefact): %s -> %s" % (call[:300], observed[:300])))
        else:
            verdicts.append(("inconclusive", observed))
    if job["kind"] == "ch" and not any(v == "violation" for v, _ in verdicts):
        if paths == 0:
            verdicts.append(("inconclusive", "vacuous: no path reached the end of the harness body"))
        elif nontriv == 0:
            verdicts.append(("inconclusive", "vacuous: no non-trivial path (see harness tick rule)"))
    for v, d in verdicts:
        recs.append(dict(base, verdict=v, detail=d))
    return recs


def match_known(known, pid, fname, call, observed):
    for k in known:
        if k.get("status") != "open" or k.get("property") != pid:
            continue
        if k.get("job") not in (None, fname):
            continue
        needle = k.get("observed_contains")
        if needle and needle not in observed:
            continue
        calls = k.get("calls")
        if calls and call.replace(" ", "") not in [c.replace(" ", "") for c in calls]:
            continue
        return k
    return None


def write_replay(pid, job, module, call, msg, observed):
    d = os.path.join(VERIF, "replays", pid)
    os.makedirs(d, exist_ok=True)
    hsh = hashlib.sha1(call.encode()).hexdigest()[:10]
    p = os.path.join(d, "%s-%s.json" % (job["function"], hsh))
    with open(p, "w") as f:
        json.dump(dict(property=pid, module=module, function=job["function"], call=call, message=msg,
                       observed=observed, tier=os.environ.get("VERIF_TIER", "quick"), seed=os.environ.get("VERIF_SEED", "0"),
                       rerun="./check --replay %s" % p), f, indent=1)
    return p


def source_hashes(funcs):
    """sha1 of the current source text of the encoded functions (regenerated per run)."""
    import inspect
    out = {}
    for q in funcs:
        q0 = q.rstrip(".*")
        parts = q0.split(".")
        obj = None
        for i in range(len(parts), 0, -1):
            try:
                obj = importlib.import_module(".".join(parts[:i]))
                for a in parts[i:]:
                    obj = getattr(obj, a)
                break
            except Exception:
                obj = None
        try:
            src = inspect.getsource(obj)
            out[q] = hashlib.sha1(src.encode()).hexdigest()[:12]
        except Exception:
            out[q] = "n/a"
    return out


def run_property(pid, modules, tier, level_text=""):
    t0 = time.time()
    seed = int(os.environ.get("VERIF_SEED", "0") or 0)
    os.environ["VERIF_TIER"] = tier
    subprocess.run([os.path.join(VERIF, "vk", "ensure_env.sh")], check=True)
    scratch = tempfile.mkdtemp(prefix="vk-%s-" % pid)
    known = load_known()
    try:
        jobs = discover(modules, pid, tier)
        only = os.environ.get("VK_ONLY")
        if only:
            jobs = [j for j in jobs if only in j["function"]]
        done = run_jobs(jobs, tier, scratch)
        recs = []
        for j in sorted(done, key=lambda j: j["function"]):
            recs.extend(judge(j, pid, scratch, known))
    finally:
        shutil.rmtree(scratch, ignore_errors=True)
    # known findings that are expected to show: print each listed open finding that was hit
    viol = [r for r in recs if r["verdict"] == "violation"]
    inc = [r for r in recs if r["verdict"] == "inconclusive"]
    kn = [r for r in recs if r["verdict"] == "known"]
    held = [r for r in recs if r["verdict"] == "held"]
    for r in kn:
        print(r["detail"])
    for r in inc:
        print("INCONCLUSIVE property=%s job=%s: %s" % (pid, r["job"], str(r["detail"])[:600]))
    for r in viol:
        print("VIOLATION property=%s replay=%s" % (pid, r["detail"]["replay"]))
        print("  job=%s call=%s observed=%s" % (r["job"], r["detail"]["call"][:300], r["detail"]["observed"][:300]))
    wall = time.time() - t0
    allfuncs = sorted({f for j in jobs for f in j["meta"].get("funcs", [])})
    perjob = {}
    for r in recs:
        pj = perjob.setdefault(r["job"], dict(job=r["job"], kind=r["kind"], bounds=r["bounds"], verdicts=[],
                                              paths=r["paths"], nontrivial=r["nontrivial"], wall_s=r["wall_s"],
                                              cpu_s=r.get("cpu_s"), queries=r.get("queries", 0),
                                              solver_s=r.get("solver_s", 0), outside=r["outside"], stubs=r["stubs"]))
        pj["verdicts"].append(r["verdict"] if r["verdict"] != "violation" else "violation: " + r["detail"]["call"][:200])
    samples = []
    for j in done:
        try:
            res = json.load(open(j["out"])) if os.path.exists(j["out"]) else {}
        except Exception:
            res = {}
    for r in recs:
        for ex in (r.get("examples_run") or [])[:2]:
            samples.append({"job": r["job"], "case": ex})
    seen = set()
    usamples = []
    for s in samples:
        k = json.dumps(s, sort_keys=True, default=str)
        if k not in seen:
            seen.add(k)
            usamples.append(s)
    evaluations = sum(pj["paths"] + pj["queries"] for pj in perjob.values())
    nontriv = sum(pj["nontrivial"] + pj["queries"] for pj in perjob.values())
    ev = {
        "property_id": pid, "tier": tier, "seed": seed, "level": "model_checking",
        "coverage": {
            "evaluations": evaluations,
            "distinct_nontrivial": nontriv,
            "rule": "evaluations = symbolic execution paths executed by CrossHair through the real code (one per feasible "
                    "path of harness+implementation under the pre-conditions; each path stands for all inputs that follow it, "
                    "z3 decides feasibility and the post-condition) + SMT queries discharged by the direct z3/cvc5 encodings. "
                    "A path is non-trivial when the harness' own tick rule holds (operands non-empty / the transaction, crash, "
                    "merge or optimisation under test actually occurred); every SMT query is a distinct obligation.",
            "samples": usamples[:40] or [{"note": "no examples registered"}],
            "exhaustive": bool(held) and not inc and not viol,
            "jobs": list(perjob.values()),
            "functions_encoded": source_hashes(allfuncs),
            "confirmed_jobs": len({r["job"] for r in held}),
            "inconclusive_jobs": len({r["job"] for r in inc}),
            "known_findings_hit": [r["detail"] for r in kn],
            "solver_time_s": round(sum((pj.get("cpu_s") or 0) for pj in perjob.values()), 1),
            "explanation": level_text,
        },
        "assumptions": sorted({s for j in jobs for s in j["meta"].get("stubs", [])} |
                              {"outside: " + j["meta"]["outside"] for j in jobs if j["meta"].get("outside")} |
                              {"bounded: every verdict holds only within the per-job bounds listed under coverage.jobs"}),
        "wall_s": round(wall, 1),
        "violations": len(viol),
    }
    # a run against a scratch tree (vk/try_seed.sh sets VK_REPO_SRC) is not evidence about /repo: keep it out of evidence/
    evdir = os.path.join(VERIF, "evidence") if not os.environ.get("VK_REPO_SRC") else os.path.join(VERIF, "scratch", "seed-evidence")
    os.makedirs(evdir, exist_ok=True)
    with open(os.path.join(evdir, pid + ".json"), "w") as f:
        json.dump(ev, f, indent=1, default=str)
    print("%s tier=%s jobs=%d held=%d known=%d inconclusive=%d violations=%d paths+queries=%d wall=%.0fs" % (
        pid, tier, len(jobs), len({r['job'] for r in held}), len(kn), len(inc), len(viol), evaluations, wall))
    if viol:
        return 1
    if inc or not jobs:
        return 3
    return 0
