"""usage: store_seed.py <property> <index> <worktree dir> "<what it needs>"  -> /verif/seeded/<property>-<index>/"""
import json, os, shutil, sys
pid, i, wt, needs = sys.argv[1:5]
d = "/verif/seeded/%s-%s" % (pid, i)
os.makedirs(d, exist_ok=True)
shutil.copy(os.path.join(wt, "mut%s.diff" % i), os.path.join(d, "patch.diff"))
shutil.copy(os.path.join(wt, "demo%s.py" % i), os.path.join(d, "demo.py"))
if os.path.exists(os.path.join(wt, "NOTES.md")):
    shutil.copy(os.path.join(wt, "NOTES.md"), os.path.join(d, "NOTES.md"))
meta = {"property": pid, "needs": needs, "source": "independent sub-agent given only the property text and a scratch worktree",
        "confirmed": "vk/confirm_seed.sh: demo passes on clean HEAD, patch applies, 587 tests pass with the patch, demo fails with the patch",
        "checks_run": [], "caught_by": None}
json.dump(meta, open(os.path.join(d, "meta.json"), "w"), indent=1)
print("stored", d)
