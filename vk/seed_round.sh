#!/bin/bash
# usage: vk/seed_round.sh <round dir> <property> <i>      e.g. vk/seed_round.sh /tmp/seed3 C13 1
# confirms mutation i of the sub-agent's worktree <round dir>/<property> against /repo's HEAD, stores it as
# seeded/<property>-<next free index>/ and tries the property's quick check against it (scratch worktree).
set -u
RD="$1"; PID="$2"; I="$3"
WT="$RD/$PID"
cd "$(dirname "$0")/.."
mkdir -p "$RD/logs"
[ -f "$WT/mut$I.diff" ] && [ -f "$WT/demo$I.py" ] || { echo "$PID-$I: deliverables missing"; exit 2; }
SIG=$(grep -a '^[+-][^+-]' "$WT/mut$I.diff" | tr -d ' \t' | sort | md5sum | cut -c1-12)
for E in seeded/$PID-*/patch.diff; do
  [ -f "$E" ] || continue
  if [ "$(grep -a '^[+-][^+-]' "$E" | tr -d ' \t' | sort | md5sum | cut -c1-12)" = "$SIG" ]; then echo "$PID mut$I: same change as $E - skipped"; exit 0; fi
done
OUT=$(vk/confirm_seed.sh "$WT/mut$I.diff" "$WT/demo$I.py" 2>&1)
echo "$PID mut$I: $OUT" | tr '\n' ' '; echo
echo "$OUT" | grep -q CONFIRMED || exit 1
N=1; while [ -d "seeded/$PID-$N" ]; do N=$((N+1)); done
D="seeded/$PID-$N"; mkdir -p "$D"
cp "$WT/mut$I.diff" "$D/patch.diff"; cp "$WT/demo$I.py" "$D/demo.py"; [ -f "$WT/NOTES.md" ] && cp "$WT/NOTES.md" "$D/NOTES.md"
echo "stored $D"
vk/try_seed.sh "$PID" "$PWD/$D/patch.diff" > "$RD/logs/$PID-$N.log" 2>&1
tail -3 "$RD/logs/$PID-$N.log" | cut -c1-300
