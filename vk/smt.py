"""Helpers for direct solver jobs (engines E2/E3/E4): decorator `q` and the Report object."""
import time


def q(bounds="", funcs=(), outside="", stubs=(), timeout=None, tiers=("quick", "thorough")):
    def deco(fn):
        fn.vk_meta = dict(kind="py", bounds=bounds, funcs=list(funcs), examples=[], outside=outside,
                          stubs=list(stubs), timeout=timeout, path_timeout=None, tiers=tuple(tiers))
        return fn
    return deco


class Report(object):
    """Collects obligations.  A violation carries a replay call string `fn(args)` evaluated in the
    harness module by vk/replay.py against the real code (returns None iff the property holds)."""
    def __init__(self):
        self.messages = []
        self.queries = 0
        self.solver_s = 0.0
        self.samples = []
        self.timeout = 120.0

    def held(self, name, detail=""):
        self.messages.append({"state": "HELD", "message": "%s: unsat %s" % (name, detail)})

    def violation(self, name, call, detail=""):
        self.messages.append({"state": "POST_FAIL", "message": "%s: sat %s" % (name, detail), "call": call})

    def inconclusive(self, name, detail=""):
        self.messages.append({"state": "INCONCLUSIVE", "message": "%s: %s" % (name, detail)})

    def sample(self, s):
        if len(self.samples) < 6:
            self.samples.append(s)

    def absorb(self, eng):
        self.queries += eng.queries
        self.solver_s += eng.solver_s
        eng.queries = 0
        eng.solver_s = 0.0


def timed_check(solver, report):
    import z3
    t0 = time.time()
    r = solver.check()
    report.queries += 1
    report.solver_s += time.time() - t0
    return r
