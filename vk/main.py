import argparse
import json
import os
import sys

VERIF = os.path.dirname(os.path.dirname(os.path.abspath(__file__)))
sys.path.insert(0, VERIF)
os.environ.setdefault("PYTHONDONTWRITEBYTECODE", "1")
sys.dont_write_bytecode = True


def main():
    ap = argparse.ArgumentParser()
    ap.add_argument("property", nargs="?")
    ap.add_argument("--tier", default=os.environ.get("VERIF_TIER", "quick"), choices=["quick", "thorough"])
    ap.add_argument("--replay")
    a = ap.parse_args()
    from vk import ch
    if a.replay:
        r = json.load(open(a.replay))
        # the harness tables depend on the tier (and the hash seed) the counterexample was found with
        os.environ["VERIF_TIER"] = r.get("tier", os.environ.get("VERIF_TIER", "quick"))
        os.environ["VERIF_SEED"] = str(r.get("seed", os.environ.get("VERIF_SEED", "0")))
        ok, observed = ch.replay_call(r["module"], r["call"], "/tmp")
        print("replay %s: %s -> %s" % (a.replay, r["call"], observed))
        if ok:
            print("VIOLATION property=%s replay=%s" % (r["property"], a.replay))
            return 1
        return 0 if ok is False else 3
    from vk.registry import REGISTRY
    pid = a.property.upper()
    if pid not in REGISTRY:
        print("unknown or not-applicable property", pid)
        return 3
    os.environ["VERIF_TIER"] = a.tier
    ent = REGISTRY[pid]
    return ch.run_property(pid, ent["modules"], a.tier, ent.get("text", ""))


if __name__ == "__main__":
    sys.exit(main())
