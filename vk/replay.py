"""Concrete replay of one harness call in a plain interpreter.

usage: replay.py <module> "<fname(args)>"   prints "REPLAY OK <repr>" or "REPLAY FAIL <what>".
A harness call "fails" iff it returns something other than None or raises an Exception.
"""
import importlib
import os
import sys
import traceback

VERIF = os.path.dirname(os.path.dirname(os.path.abspath(__file__)))
sys.path.insert(0, VERIF)
import vk  # noqa: E402,F401  (repository under test first on sys.path)
sys.setrecursionlimit(20000)


def main():
    modname, call = sys.argv[1], sys.argv[2]
    mod = importlib.import_module(modname)
    ns = dict(vars(mod))
    try:
        r = eval(call, ns)
    except Exception as e:
        tb = traceback.format_exception(type(e), e, e.__traceback__)
        print("REPLAY FAIL raised %s: %s | %s" % (type(e).__name__, str(e)[:300], " ".join(tb[-3:]).replace("\n", " ")[:900]))
        return
    if r is None:
        print("REPLAY OK None")
    else:
        print("REPLAY FAIL returned " + repr(r)[:1200].replace("\n", " "))


if __name__ == "__main__":
    main()
