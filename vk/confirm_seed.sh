#!/bin/bash
# usage: vk/confirm_seed.sh <patch> <demo.py>   -> prints CONFIRMED / REJECTED with reasons
# In a scratch worktree of /repo's HEAD: demo passes unpatched, patch applies, suite passes, demo fails.
set -u
PATCH="$1"; DEMO="$2"
WT=$(mktemp -d /tmp/vkconf-XXXXXX)
git -C /repo worktree add -q --detach "$WT" HEAD || exit 2
mkdir -p "$WT/tmp"
run() { (cd "$WT" && TMPDIR="$WT/tmp" PYTHONPATH="$WT/src" timeout 900 "$@"); }
run /venv/bin/python "$DEMO" >/dev/null 2>&1; D0=$?
if ! git -C "$WT" apply "$PATCH" 2>/dev/null; then echo "REJECTED: patch does not apply to HEAD"; git -C /repo worktree remove --force "$WT"; exit 1; fi
SUITE=$(run /venv/bin/python -m pytest -q -p no:cacheprovider tests 2>&1 | tail -1)
run /venv/bin/python "$DEMO" >/dev/null 2>&1; D1=$?
git -C /repo worktree remove --force "$WT"
echo "demo clean=$D0 mutated=$D1 suite: $SUITE"
if [ "$D0" = 0 ] && [ "$D1" != 0 ] && echo "$SUITE" | grep -q "587 passed"; then echo CONFIRMED; else echo REJECTED; fi
