"""Shared fixtures for whole-transaction harnesses (DESIGN section 4, 'Shared fixtures').

OpStorage: FileStorage / RamStorage subclasses whose storage-layer operations call
Ctl.tick(kind, name).  The tick counter is concrete; it is compared with *symbolic* points
(crash point, injection points), so the solver splits a run into one feasible path per point.
"""
import os
import shutil
import tempfile
import random

from vk.prelude import sym_true
from whoosh import fields, index, query
from whoosh.filedb.filestore import FileStorage, RamStorage
from whoosh.filedb.structfile import StructFile
from whoosh.codec.whoosh3 import W3Codec


class Crash(BaseException):
    """Process death at a storage-operation boundary (BaseException: Whoosh must not catch it)."""


import re
_TOCTMP = re.compile(r"(\.toc)\.[0-9.e+-]+$")


def _norm(name):
    """Temporary TOC names embed time(); normalise them so traces are comparable."""
    return _TOCTMP.sub(r"\1.TMP", name)


class Ctl(object):
    def __init__(self, crash_at=None, cut=2, inject=None):
        self.n = 0
        self.crash_at = crash_at       # symbolic: the crash happens *instead of* operation number crash_at
        self.cut = cut                 # 0/1/2: files still open at the crash keep nothing / half / all written bytes
        self.dead = False
        self.crash_n = None
        self.cut_taken = None
        self.snapshot = None
        self.trace = []
        self.inject = inject or {}     # tick number -> callable, run *before* that operation
        self.points = []
        self.storage = None
        self.enabled = True
        self.in_inject = False

    def cut_choice(self):
        """Concrete copy of the symbolic prefix choice; only consulted (= only forks the solver) when a
        file is actually open at the crash."""
        if self.cut_taken is None:
            c = self.cut
            self.cut_taken = 0 if sym_true(lambda: c == 0) else (1 if sym_true(lambda: c == 1) else 2)
        return self.cut_taken

    def tick(self, kind, name):
        if not self.enabled or self.in_inject:
            return
        if self.dead:
            raise Crash()
        self.n += 1
        self.trace.append((kind, _norm(name)))
        if self.crash_at is not None and sym_true(lambda: self.n == self.crash_at):
            self.dead = True
            self.crash_n = self.n          # concrete copy of the (symbolic) crash point on this path
            self.snapshot = self.storage.snapshot(self)
            raise Crash()
        fn = self.inject.get(self.n) if self.inject else None
        if fn is not None:
            self._run_injected(fn)
        for pt in self.points:
            # pt = [symbolic tick number, callable, fired]; fires *before* operation number pt[0].
            # Points are registered in non-decreasing order of their tick (harness pre-condition), so only
            # the first unfired one needs a solver query per tick.
            if pt[2]:
                continue
            if sym_true(lambda: self.n == pt[0]):
                pt[2] = True
                self._run_injected(pt[1])
            else:
                break

    def _run_injected(self, fn):
        self.in_inject = True
        try:
            fn()
        finally:
            self.in_inject = False

    def add_point(self, sym_tick, fn):
        self.points.append([sym_tick, fn, False])


def _wrap_created(storage, f, name):
    """Tick on close of a created file, remember it while open (for crash materialisation)."""
    ctl = storage.ctl
    storage.open_created[name] = f
    orig_close = f.close

    def close():
        if f.is_closed:
            return orig_close()
        ctl.tick("close", name)
        storage.open_created.pop(name, None)
        return orig_close()
    f.close = close
    if ctl.write_ticks:
        raw = f.file
        orig_write = raw.write

        class W(object):
            def __getattr__(self, a):
                return getattr(raw, a)

            def write(self, data):
                ctl.tick("write", name)
                return orig_write(data)
        f.file = W()
        f.is_real = False      # force write_array()/etc. through write() instead of array.tofile(fileobj)
    return f


class OpMixin(object):
    def _ops_init(self, ctl):
        self.ctl = ctl
        ctl.storage = self
        if not hasattr(ctl, "write_ticks"):
            ctl.write_ticks = False
        self.open_created = {}
        self.made_locks = []

    def create_file(self, name, **kwargs):
        self.ctl.tick("create", name)
        f = super(OpMixin, self).create_file(name, **kwargs)
        return _wrap_created(self, f, name)

    def open_file(self, name, **kwargs):
        self.ctl.tick("open", name)
        return super(OpMixin, self).open_file(name, **kwargs)

    def rename_file(self, a, b, safe=False):
        self.ctl.tick("rename", a)
        return super(OpMixin, self).rename_file(a, b, safe=safe)

    def delete_file(self, name):
        self.ctl.tick("delete", name)
        return super(OpMixin, self).delete_file(name)

    def list(self):
        self.ctl.tick("list", "")
        return super(OpMixin, self).list()

    def lock(self, name):
        self.ctl.tick("lock", name)
        lk = super(OpMixin, self).lock(name)
        self.made_locks.append(lk)
        return lk


class OpFileStorage(OpMixin, FileStorage):
    def __init__(self, path, ctl, supports_mmap=True):
        FileStorage.__init__(self, path, supports_mmap=supports_mmap)
        self._ops_init(ctl)

    def snapshot(self, cut):
        snap = {}
        for name in os.listdir(self.folder):
            p = os.path.join(self.folder, name)
            if os.path.isdir(p):
                continue
            f = self.open_created.get(name)
            if f is not None and not f.is_closed:
                try:
                    f.file.flush()
                except Exception:  # noqa
                    pass
            with open(p, "rb") as fh:
                data = fh.read()
            if f is not None and not f.is_closed:
                data = _cut(data, cut.cut_choice() if isinstance(cut, Ctl) else cut)
            snap[name] = data
        return snap

    def raw_names(self):
        return [n for n in os.listdir(self.folder) if not os.path.isdir(os.path.join(self.folder, n))]

    def release_all(self):
        """What the OS does at process death: open descriptors (incl. flock) are closed."""
        for lk in self.made_locks:
            try:
                if getattr(lk, "fd", None) is not None:
                    lk.release()
            except Exception:  # noqa
                pass
        for f in list(self.open_created.values()):
            try:
                f.file.close()
            except Exception:  # noqa
                pass


class OpRamStorage(OpMixin, RamStorage):
    def __init__(self, ctl):
        RamStorage.__init__(self)
        self._ops_init(ctl)

    def snapshot(self, cut):
        snap = dict((k, bytes(v)) for k, v in self.files.items())
        # RamStorage only publishes a file on close; a directory would already show a prefix
        for name, f in self.open_created.items():
            if not f.is_closed:
                snap[name] = _cut(f.file.getvalue(), cut.cut_choice() if isinstance(cut, Ctl) else cut)
        return snap

    def raw_names(self):
        return list(self.files.keys())

    def release_all(self):
        pass


def _cut(data, cut):
    if cut == 0:
        return b""
    if cut == 1:
        return data[:len(data) // 2]
    return data


def restore(kind, snap, ctl, tmpdirs, supports_mmap=True):
    """A storage of the given kind holding exactly the files of snap."""
    if kind == "ram":
        st = OpRamStorage(ctl)
        st.files = dict(snap)
        return st
    d = tempfile.mkdtemp(prefix="vkix-")
    tmpdirs.append(d)
    for name, data in snap.items():
        with open(os.path.join(d, name), "wb") as fh:
            fh.write(data)
    return OpFileStorage(d, ctl, supports_mmap=supports_mmap)


def cleanup(tmpdirs):
    for d in tmpdirs:
        shutil.rmtree(d, ignore_errors=True)
    del tmpdirs[:]


# ------------------------------------------------------------------ canonical dump
def dump(ix, keyfield="k"):
    """Logical content: (doc_count, sorted stored docs, lexicon with postings keyed by the doc key)."""
    with ix.searcher() as s:
        return dump_reader(s.reader(), keyfield)


def dump_reader(r, keyfield="k"):
    if True:
        docs = sorted(tuple(sorted((k, repr(v)) for k, v in d.items())) for d in r.all_stored_fields())
        lex = []
        for fname, text in r.all_terms():
            m = r.postings(fname, text)
            ps = []
            while m.is_active():
                ps.append((r.stored_fields(m.id()).get(keyfield), round(m.weight(), 4)))
                m.next()
            if ps:
                lex.append((fname, bytes(text), tuple(sorted(ps, key=repr))))
        return (r.doc_count(), tuple(docs), tuple(lex))


def base_schema():
    return fields.Schema(k=fields.ID(stored=True, unique=True), t=fields.TEXT(stored=False),
                         n=fields.NUMERIC(int, bits=8, signed=False, shift_step=4, sortable=True, stored=True))


def segment_files_ok(storage, ix):
    """After a successful commit: no orphaned segment files, exactly one TOC (temporary TOC files that
    never match the segment pattern are reported separately by the caller)."""
    from whoosh.index import TOC
    toc = ix._read_toc()
    current = set(s.segment_id() for s in toc.segments)
    tocpat = TOC._pattern(ix.indexname)
    segpat = TOC._segment_pattern(ix.indexname)
    problems = []
    for name in storage.raw_names():
        m = tocpat.match(name)
        if m:
            if int(m.group(1)) != toc.generation:
                problems.append("stale TOC " + name)
            continue
        m = segpat.match(name)
        if m and m.group(1) not in current:
            problems.append("orphan " + name)
    return problems
