#!/bin/bash
# Idempotent, flock-guarded: build /verif/.venv (overlay on /venv) with crosshair-tool, z3, cvc5
# from the offline wheelhouse.  Called by MANIFEST.setup_cmd and at the start of every check.
set -e
VERIF="$(cd "$(dirname "$0")/.." && pwd)"
VENV="$VERIF/.venv"
STAMP="$VENV/.vk_ready"
[ -f "$STAMP" ] && exit 0
exec 9>"$VERIF/.venv.lock"
flock 9
[ -f "$STAMP" ] && exit 0
rm -rf "$VENV"
/venv/bin/python -m venv "$VENV"
SP="$VENV/lib/python3.12/site-packages"
printf '/venv/lib/python3.12/site-packages\n/repo/src\n' > "$SP/vk_overlay.pth"
PIP_NO_INDEX=1 "$VENV/bin/pip" install -q --no-index --find-links /opt/veriftools/wheels crosshair-tool z3-solver cvc5 jsonschema >/dev/null
"$VENV/bin/python" -c "import crosshair, z3, whoosh"
touch "$STAMP"
