"""Corpus model, index layouts, query generator and reference evaluator for the end-to-end harnesses
(C01-H2, C05-H2, C09-H3, C14, C15-H3, C19-H3).

The reference evaluator works on the *corpus model* (python lists of words / numbers), never on the
index: every leaf query has an independent predicate written here from the documented meaning.
"""
import random
import re

from whoosh import fields, query, analysis
from whoosh.filedb.filestore import RamStorage
from whoosh.codec.whoosh3 import W3Codec

WORDS = [u"alfa", u"bravo", u"charlie", u"alto"]

# key, text (field t, TEXT with positions), number (field n, NUMERIC 8 bit unsigned sortable) or None, tag (KEYWORD)
CORPUS = [
    (u"d0", u"alfa bravo charlie", 1, u"x"),
    (u"d1", u"bravo alfa alfa", 7, u"y"),
    (u"d2", u"charlie", 8, u"x"),
    (u"d3", u"alto bravo", 12, u"x y"),
    (u"d4", u"alfa charlie bravo alfa", 200, u"y"),
    (u"d5", u"bravo bravo bravo", None, u""),
    (u"d6", u"alto", 255, u"z"),
    (u"d7", u"charlie alfa", 0, u"x"),
]
GHOSTS = [(u"g0", u"alfa bravo alto", 9, u"x"), (u"g1", u"charlie charlie", 3, u"y")]   # added then deleted


def schema():
    return fields.Schema(k=fields.ID(stored=True, unique=True),
                         t=fields.TEXT(analyzer=analysis.StandardAnalyzer(stoplist=None, minsize=1), phrase=True, stored=False),
                         n=fields.NUMERIC(int, bits=8, signed=False, shift_step=4, sortable=True, stored=True),
                         g=fields.KEYWORD(stored=True, scorable=True))


def _add(w, d):
    kw = dict(k=d[0], t=d[1], g=d[3])
    if d[2] is not None:
        kw["n"] = d[2]
    w.add_document(**kw)


def build_layout(name, blocklimit=2, docs=None):
    """Same live documents in the same relative order, different physical histories."""
    docs = docs or CORPUS
    random.seed(7)
    st = RamStorage()
    ix = st.create_index(schema())
    codec = lambda: W3Codec(blocklimit=blocklimit)
    if name == "one":                      # one segment, no deletions
        w = ix.writer(codec=codec())
        for d in docs:
            _add(w, d)
        w.commit()
    elif name == "two":                    # two segments, no deletions
        h = len(docs) // 2
        w = ix.writer(codec=codec())
        for d in docs[:h]:
            _add(w, d)
        w.commit()
        # the second segment is written with a posting pool of ~400 bytes, so the pool spills to temporary runs several times and
        # the segment is built by the external merge sort (seed C01-3: the last, unspilled run was not merged)
        w = ix.writer(codec=codec(), limitmb=0.0004)
        for d in docs[h:]:
            _add(w, d)
        w.commit(merge=False)
    elif name == "del":                    # two segments, a deleted document in each
        h = len(docs) // 2
        w = ix.writer(codec=codec())
        for d in docs[:2]:
            _add(w, d)
        _add(w, GHOSTS[0])
        for d in docs[2:h]:
            _add(w, d)
        w.commit()
        w = ix.writer(codec=codec())
        _add(w, GHOSTS[1])
        for d in docs[h:]:
            _add(w, d)
        w.commit(merge=False)
        w = ix.writer(codec=codec())
        w.delete_by_term("k", GHOSTS[0][0])
        w.delete_by_term("k", GHOSTS[1][0])
        w.commit(merge=False)
    elif name == "three":                  # three segments, middle one with a trailing deleted doc, then last doc
        w = ix.writer(codec=codec())
        for d in docs[:3]:
            _add(w, d)
        w.commit()
        w = ix.writer(codec=codec())
        for d in docs[3:6]:
            _add(w, d)
        _add(w, GHOSTS[0])
        w.commit(merge=False)
        w = ix.writer(codec=codec())
        for d in docs[6:]:
            _add(w, d)
        w.delete_by_term("k", GHOSTS[0][0])
        w.commit(merge=False)
    elif name == "opt":                    # the 'del' history, then optimised
        ix = build_layout("del", blocklimit, docs)
        w = ix.writer(codec=codec())
        w.commit(optimize=True)
    else:
        raise ValueError(name)
    return ix


LAYOUTS = ["one", "two", "del", "three", "opt"]
NODEL_LAYOUTS = ["one", "two"]


# ------------------------------------------------------------------ model helpers
def toks(d):
    return d[1].split()


def edit1(a, b):
    """Damerau-Levenshtein distance <= 1 (documented distance of FuzzyTerm)."""
    if a == b:
        return True
    la, lb = len(a), len(b)
    if abs(la - lb) > 1:
        return False
    if la == lb:
        diff = [i for i in range(la) if a[i] != b[i]]
        if len(diff) == 1:
            return True
        return len(diff) == 2 and diff[1] == diff[0] + 1 and a[diff[0]] == b[diff[1]] and a[diff[1]] == b[diff[0]]
    if la > lb:
        a, b = b, a
    return any(b[:i] + b[i + 1:] == a for i in range(len(b)))


def phrase_match(words, slop):
    """Documented meaning of Phrase(words, slop) as implemented by SpanNear(ordered, mindist=1): consecutive
    query words occur in order, each at most `slop` positions after the previous one."""
    def pred(d):
        ts = toks(d)

        def rec(wi, prev):
            if wi == len(words):
                return True
            for p, t in enumerate(ts):
                if t == words[wi] and (prev is None or 0 < p - prev <= slop):
                    if rec(wi + 1, p):
                        return True
            return False
        return rec(0, None)
    return pred


def _spans():
    from whoosh.query import spans
    return spans


# leaf table: (name, query factory, predicate over a corpus tuple, scored?)
def leaves():
    T = lambda w: (u"t:" + w, lambda: query.Term("t", w), lambda d: w in toks(d))
    L = [T(u"alfa"), T(u"bravo"), T(u"charlie"), T(u"alto"),
         (u"t:zulu(absent)", lambda: query.Term("t", u"zulu"), lambda d: False),
         (u"g:x", lambda: query.Term("g", u"x"), lambda d: u"x" in d[3].split()),
         (u"prefix al", lambda: query.Prefix("t", u"al"), lambda d: any(t.startswith(u"al") for t in toks(d))),
         (u"wild *l?a", lambda: query.Wildcard("t", u"*l?a"), lambda d: any(re.match(u"^.*l.a$", t) for t in toks(d))),
         (u"regex ^[bc]", lambda: query.Regex("t", u"^[bc]"), lambda d: any(re.match(u"^[bc]", t) for t in toks(d))),
         (u"range [alto TO bravo]", lambda: query.TermRange("t", u"alto", u"bravo"), lambda d: any(u"alto" <= t <= u"bravo" for t in toks(d))),
         (u"range {alfa TO charlie}", lambda: query.TermRange("t", u"alfa", u"charlie", startexcl=True, endexcl=True),
          lambda d: any(u"alfa" < t < u"charlie" for t in toks(d))),
         (u"fuzzy alta~1", lambda: query.FuzzyTerm("t", u"alta", maxdist=1, prefixlength=1),
          lambda d: any(edit1(u"alta", t) and t[:1] == u"a" for t in toks(d))),
         (u"n:[7 TO 12]", lambda: query.NumericRange("n", 7, 12), lambda d: d[2] is not None and 7 <= d[2] <= 12),
         (u"n:{1 TO 200]", lambda: query.NumericRange("n", 1, 200, startexcl=True), lambda d: d[2] is not None and 1 < d[2] <= 200),
         (u"n:[8 TO]", lambda: query.NumericRange("n", 8, None), lambda d: d[2] is not None and d[2] >= 8),
         (u"n:[TO 0]", lambda: query.NumericRange("n", None, 0), lambda d: d[2] is not None and d[2] <= 0),
         (u"every", lambda: query.Every(), lambda d: True),
         (u"every n", lambda: query.Every("n"), lambda d: d[2] is not None),
         (u"phrase alfa bravo", lambda: query.Phrase("t", [u"alfa", u"bravo"]), phrase_match([u"alfa", u"bravo"], 1)),
         (u"phrase bravo alfa~2", lambda: query.Phrase("t", [u"bravo", u"alfa"], slop=2), phrase_match([u"bravo", u"alfa"], 2)),
         (u"null", lambda: query.NullQuery, lambda d: False),
         (u"spanfirst (alfa|alto)<=1", lambda: _spans().SpanFirst(query.Or([query.Term("t", u"alfa"), query.Term("t", u"alto")]), limit=1),
          lambda d: any(t in (u"alfa", u"alto") for t in toks(d)[:2])),
         ]
    return L


import os as _os
BASIC = [0, 1, 2, 12, 16] if _os.environ.get('VERIF_TIER') == 'thorough' else [0, 12, 16]     # leaves used at depth 2

# binary / unary operators: (name, factory(qa, qb), predicate combiner)
OPS = [
    (u"And", lambda a, b: query.And([a, b]), lambda pa, pb: pa and pb),
    (u"Or", lambda a, b: query.Or([a, b]), lambda pa, pb: pa or pb),
    (u"Or/array", lambda a, b: _array_or(a, b), lambda pa, pb: pa or pb),
    (u"AndNot", lambda a, b: query.AndNot(a, b), lambda pa, pb: pa and not pb),
    (u"AndMaybe", lambda a, b: query.AndMaybe(a, b), lambda pa, pb: pa),
    (u"Require", lambda a, b: query.Require(a, b), lambda pa, pb: pa and pb),
    (u"DisMax", lambda a, b: query.DisjunctionMax([a, b]), lambda pa, pb: pa or pb),
    (u"And(a, Not b)", lambda a, b: query.And([a, query.Not(b)]), lambda pa, pb: pa and not pb),
    (u"Or(Not a, b)", lambda a, b: query.Or([query.Not(a), b]), lambda pa, pb: (not pa) or pb),
    (u"ConstScore(Or)", lambda a, b: query.ConstantScoreQuery(query.Or([a, b]), 2.0), lambda pa, pb: pa or pb),
]


def _array_or(a, b):
    q = query.Or([a, b])
    q.matcher_type = query.Or.ARRAY_MATCHER
    return q


def expected(pred, docs=None):
    return [d[0] for d in (docs or CORPUS) if pred(d)]


# ------------------------------------------------------------------ access paths
def keys_of(searcher, docnums):
    return [searcher.stored_fields(n)["k"] for n in docnums]


def access_paths(s, q):
    """Every way of asking 'which documents match' (C01): name -> list of keys in corpus order."""
    out = {}
    out["docs_for_query"] = sorted(keys_of(s, s.docs_for_query(q)))
    out["query.docs"] = sorted(keys_of(s, q.docs(s)))
    r = s.search(q, limit=None)
    out["search(limit=None)"] = sorted(h["k"] for h in r)
    out["len(limit=None)"] = len(r)
    for lim in (1, 2):
        r = s.search(q, limit=lim)
        out["len(limit=%d)" % lim] = len(r)
        out["scored_length(limit=%d)" % lim] = r.scored_length()
        out["hits(limit=%d)" % lim] = sorted(h["k"] for h in r)
    r = s.search(q, limit=None, scored=False)
    out["unscored"] = sorted(h["k"] for h in r)
    r = s.search(q, limit=None, sortedby="k")
    out["sortedby k"] = [h["k"] for h in r]
    r = s.search(q, limit=None, terms=True)
    out["terms=True"] = sorted(h["k"] for h in r)
    m = q.matcher(s)
    ids = []
    while m.is_active():
        ids.append(m.id())
        m.next()
    out["matcher"] = keys_of(s, ids)
    out["matcher ascending"] = ids == sorted(set(ids))
    return out
