"""Runs one direct-solver job (decorated with vk.smt.q) in its own process.
usage: py_worker.py <module> <function> <timeout> <unused> <out.json>"""
import importlib
import json
import os
import sys
import time
import traceback

VERIF = os.path.dirname(os.path.dirname(os.path.abspath(__file__)))
sys.path.insert(0, VERIF)
import vk  # noqa: E402,F401  (repository under test first on sys.path)
sys.setrecursionlimit(50000)


def main():
    modname, fname, timeout, _, out = sys.argv[1:6]
    from vk.smt import Report
    t0 = time.time()
    rep = Report()
    rep.timeout = float(timeout)
    res = {"module": modname, "function": fname, "messages": [], "error": None}
    try:
        mod = importlib.import_module(modname)
        getattr(mod, fname)(rep)
    except BaseException as e:  # noqa
        res["error"] = "".join(traceback.format_exception(type(e), e, e.__traceback__))[-4000:]
    res["messages"] = rep.messages
    res["queries"] = rep.queries
    res["solver_s"] = rep.solver_s
    res["examples"] = rep.samples
    res["wall_s"] = time.time() - t0
    res["cpu_s"] = time.process_time()
    with open(out, "w") as f:
        json.dump(res, f, default=str)


if __name__ == "__main__":
    main()
