"""vk: verification kit.  Importing the package puts the repository under test first on sys.path:
/repo/src by default, or the tree named by VK_REPO_SRC (used only to try seeded mutations in a scratch
worktree without touching /repo; registered checks never set it)."""
import os
import sys

REPO_SRC = os.environ.get("VK_REPO_SRC", "/repo/src")
if REPO_SRC in sys.path:
    sys.path.remove(REPO_SRC)
sys.path.insert(0, REPO_SRC)
