"""Prelude imported by every CrossHair harness module (DESIGN 2.2).

Works both under CrossHair (symbolic run) and in a plain interpreter (replay /
example validation): the CrossHair-specific parts are skipped when CrossHair is
not importable or no tracer is active.
"""
import os
import random
import sys

VERIF = os.path.dirname(os.path.dirname(os.path.abspath(__file__)))
if VERIF not in sys.path:
    sys.path.insert(0, VERIF)
if "/repo/src" not in sys.path:
    sys.path.insert(1, "/repo/src")

TIER = os.environ.get("VERIF_TIER", "quick")
THOROUGH = TIER == "thorough"


def tiered(quick, thorough):
    return thorough if THOROUGH else quick


try:
    import crosshair.core_and_libs  # noqa: F401  (registers patches)
    from crosshair.register_contract import REGISTERED_CONTRACTS
    from crosshair.tracers import NoTracing
    import crosshair.core as _chcore

    # time.time / random.* must stay concrete: Whoosh draws a random segment id
    # per writer; with CrossHair's registered contracts those become symbolic.
    REGISTERED_CONTRACTS.clear()
    HAVE_CH = True
except Exception:  # pragma: no cover - plain replay interpreter without crosshair
    HAVE_CH = False

    class NoTracing(object):
        def __enter__(self):
            return self

        def __exit__(self, *a):
            return False


def concrete_arrays():
    """Whole-transaction harnesses: CrossHair's SymbolicArray lacks frombytes."""
    if HAVE_CH:
        import array
        _chcore._PATCH_REGISTRATIONS.pop(array.array, None)


_TICKFILE = os.environ.get("VK_TICKFILE")


def tick(nontrivial=True):
    """Path accounting: one byte per executed harness path ('1' = non-trivial)."""
    if not _TICKFILE:
        return
    with NoTracing():
        flag = b"1" if nontrivial is True else b"0"
        fd = os.open(_TICKFILE, os.O_WRONLY | os.O_APPEND | os.O_CREAT, 0o644)
        try:
            os.write(fd, flag)
        finally:
            os.close(fd)


def h(bounds="", funcs=(), examples=(), outside="", stubs=(), timeout=None,
      path_timeout=None, tiers=("quick", "thorough"), needs=()):
    """Decorator attaching metadata to a harness function (returns it unchanged)."""
    def deco(fn):
        fn.vk_meta = dict(bounds=bounds, funcs=list(funcs), examples=list(examples),
                          outside=outside, stubs=list(stubs), timeout=timeout,
                          path_timeout=path_timeout, tiers=tuple(tiers),
                          needs=list(needs))
        return fn
    return deco


def asc(xs, maxlen, below):
    """xs is a strictly ascending list of at most maxlen ints in [0, below)."""
    n = len(xs)
    if n > maxlen:
        return False
    prev = -1
    for x in xs:
        if not (prev < x < below):
            return False
        prev = x
    return True


def inrange(xs, lo, hi, n=None):
    if n is not None and len(xs) != n:
        return False
    for x in xs:
        if not (lo <= x <= hi):
            return False
    return True


random.seed(0)
