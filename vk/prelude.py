"""Prelude imported by every CrossHair harness module (DESIGN 2.2).

Works both under CrossHair (symbolic run) and in a plain interpreter (replay /
example validation): the CrossHair-specific parts are skipped when CrossHair is
not importable or no tracer is active.
"""
import os
import random
import sys

VERIF = os.path.dirname(os.path.dirname(os.path.abspath(__file__)))
if VERIF not in sys.path:
    sys.path.insert(0, VERIF)
import vk  # noqa: F401  (puts the repository under test on sys.path)

TIER = os.environ.get("VERIF_TIER", "quick")
THOROUGH = TIER == "thorough"


def tiered(quick, thorough):
    return thorough if THOROUGH else quick


try:
    import crosshair.core_and_libs  # noqa: F401  (registers patches)
    from crosshair.register_contract import REGISTERED_CONTRACTS
    from crosshair.tracers import NoTracing
    import crosshair.core as _chcore

    # time.time / random.* must stay concrete: Whoosh draws a random segment id
    # per writer; with CrossHair's registered contracts those become symbolic.
    REGISTERED_CONTRACTS.clear()
    # CrossHair "short-circuits" calls to any function that carries a contract (including its own
    # patched builtins such as repr()/hash()): with some probability the body is skipped and a
    # symbolic proxy of the return type is returned, reconciled later.  For whole-transaction
    # harnesses this turned every path inexhaustible (same crash point explored again and again,
    # "Unable to meet precondition").  The harnesses always want the real body: disable it.
    _chcore.ShortCircuitingContext.make_interceptor = lambda self, original: original
    HAVE_CH = True
except Exception:  # pragma: no cover - plain replay interpreter without crosshair
    HAVE_CH = False

    class NoTracing(object):
        def __enter__(self):
            return self

        def __exit__(self, *a):
            return False


class _Null(object):
    def __enter__(self):
        return self

    def __exit__(self, *a):
        return False


def notrace():
    """Run a block natively (no CrossHair interception).  Used by whole-transaction harnesses: all data
    is concrete there, only the points compared inside sym_true() are symbolic."""
    if HAVE_CH:
        from crosshair.tracers import is_tracing
        if is_tracing():
            return NoTracing()
    return _Null()


def sym_true(fn):
    """Evaluate a (possibly symbolic) condition thunk to a concrete bool, forking the solver on it.
    Callable from inside a notrace() block."""
    if HAVE_CH:
        from crosshair.tracers import ResumedTracing
        from crosshair.statespace import optional_context_statespace
        from crosshair.tracers import is_tracing
        if optional_context_statespace() is not None and not is_tracing():
            with ResumedTracing():
                return True if fn() else False
    return True if fn() else False


def concretize(x):
    """Case-split a symbolic int over its feasible values: the solver picks a model value v, the path
    continues under x == v, and the x != v side is explored on a later path.  Needs a finite range in
    the pre-condition.  Cheaper than comparing x at every step (2 solver calls per path)."""
    if type(x) is int:
        return x
    if HAVE_CH:
        from crosshair.tracers import ResumedTracing, is_tracing
        from crosshair.statespace import optional_context_statespace
        from crosshair.core import realize
        if optional_context_statespace() is not None:
            if is_tracing():
                return int(realize(x))
            with ResumedTracing():
                return int(realize(x))
    return int(x)


def concrete_arrays():
    """Whole-transaction harnesses: CrossHair's SymbolicArray lacks frombytes."""
    if HAVE_CH:
        import array
        _chcore._PATCH_REGISTRATIONS.pop(array.array, None)
        # CrossHair's hash() patch can hand a SymbolicBoundedInt to a C-level dict lookup of an object
        # with a Python-level __hash__ (whoosh Segment): "TypeError: __hash__ method should return an
        # integer".  Whole-transaction harnesses only hash concrete values: use the native hash().
        _chcore._PATCH_REGISTRATIONS.pop(hash, None)


_TICKFILE = os.environ.get("VK_TICKFILE")


def tick(nontrivial=True):
    """Path accounting: one byte per executed harness path ('1' = non-trivial)."""
    if not _TICKFILE:
        return
    with NoTracing():
        flag = b"1" if nontrivial is True else b"0"
        fd = os.open(_TICKFILE, os.O_WRONLY | os.O_APPEND | os.O_CREAT, 0o644)
        try:
            os.write(fd, flag)
        finally:
            os.close(fd)


def h(bounds="", funcs=(), examples=(), outside="", stubs=(), timeout=None,
      path_timeout=None, tiers=("quick", "thorough"), needs=()):
    """Decorator attaching metadata to a harness function (returns it unchanged)."""
    def deco(fn):
        fn.vk_meta = dict(bounds=bounds, funcs=list(funcs), examples=list(examples),
                          outside=outside, stubs=list(stubs), timeout=timeout,
                          path_timeout=path_timeout, tiers=tuple(tiers),
                          needs=list(needs))
        return fn
    return deco


def asc(xs, maxlen, below):
    """xs is a strictly ascending list of at most maxlen ints in [0, below)."""
    n = len(xs)
    if n > maxlen:
        return False
    prev = -1
    for x in xs:
        if not (prev < x < below):
            return False
        prev = x
    return True


def inrange(xs, lo, hi, n=None):
    if n is not None and len(xs) != n:
        return False
    for x in xs:
        if not (lo <= x <= hi):
            return False
    return True


random.seed(0)
