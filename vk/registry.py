"""Property -> harness modules.  Jobs are the functions in those modules that carry
vk_meta (decorators vk.prelude.h / vk.smt.q) and whose name starts with '<id>_'."""

HOOK_COMMITS = []

_BOUNDED = ("Bounded: the verdict covers every input inside the per-harness bounds recorded in the evidence file and nothing "
            "outside them.  Trusted: CPython, CrossHair 0.0.110, z3 5.1; C substrates (struct, pickle, zlib, array, OS files) "
            "run concretely or are stubbed as listed per harness.")

REGISTRY = {
    "C01": dict(
        modules=["harness.c01_algebra", "harness.c01_arrays"],
        technique="CrossHair symbolic execution of the real matcher classes (symbolic posting lists) vs list algebra; z3 decides every path",
        text="Symbolic execution (CrossHair+z3) of the shipped matcher classes over symbolic ascending posting lists, depth 1 and "
             "every depth-2 nesting of the binary classes, compared with list algebra; 'Confirmed over all paths' required.",
        note=_BOUNDED),
    "C13": dict(
        modules=["harness.c13_numeric"], e2=True, engine="E2-pybmc",
        technique="bounded model checking of the real split_ranges/to_sortable source (AST -> z3 bit-vectors, unwinding + no-overflow obligations)",
        text="pybmc interprets the current source of whoosh.util.numeric over z3 bit-vectors; for every bit width and shift step the "
             "negated exact-cover property is unsat over the whole domain; unwinding and no-overflow obligations discharged.",
        note=_BOUNDED),
}

REGISTRY["C20"] = dict(
    modules=["harness.c20_kernels"], e2=True, engine="E2-pybmc",
    technique="pybmc (AST -> z3 bit-vectors, path forking) on the real varint/zig-zag/delta/GInts/Simple16/GrowableArray code; CrossHair on tables and id sets",
    text="The number codecs are interpreted from source over z3 bit-vectors: encode-then-decode equals identity on every feasible "
         "path for the stated ranges/lengths (negated round trip unsat per path, no-overflow and unwinding obligations discharged).",
    note=_BOUNDED)

REGISTRY["C02"] = dict(
    modules=["harness.c02_crash"],
    technique="CrossHair symbolic execution of real commit/cancel with a symbolic crash point over instrumented storage; z3 enumerates the feasible crash points",
    text="The crash point (index of the storage operation replaced by process death) and the surviving prefix of open files are symbolic; "
         "CrossHair executes the real writer/TOC/codec/storage code once per feasible point and must confirm over all paths that the "
         "re-opened index is exactly old or new, is writable, and that the next commit leaves no orphaned segment files.",
    note=_BOUNDED + "  OS model: rename atomic, process death closes descriptors, no write re-ordering.")

REGISTRY["C03"] = dict(
    modules=["harness.c03_snapshot"],
    technique="CrossHair symbolic injection points: reader open/probe/refresh steps injected at symbolic storage-operation boundaries of a real 5-commit writer script",
    text="The tick numbers at which a reader opens, probes (all read API families, up_to_date) and refreshes are symbolic; the real writer, "
         "reader, TOC and clean-up code runs once per feasible (k1,k2[,k3]); every path must show the generation's recorded state.",
    note=_BOUNDED + "  A reader step is atomic at a writer's storage-operation boundary (<=3 context switches); one process.")

REGISTRY["C04"] = dict(
    modules=["harness.c04_locking"],
    technique="CrossHair: competing writer attempt injected at a symbolic storage-operation boundary of the real writer; try_for against a symbolic clock",
    text="The instant of a competing writer attempt is symbolic over the lock holder's real transaction script; LockError must occur exactly while "
         "the lock is held, a successful competitor's commit must survive, generations advance by one per commit.  try_for is executed "
         "symbolically with a symbolic clock and symbolic acquire outcomes.",
    note=_BOUNDED + "  One process; flock semantics between processes are trusted.")

_PENDING = "check not built yet in this round (work in progress; see DESIGN.md section 4)"
NOT_APPLICABLE = {("C%02d" % i): _PENDING for i in range(1, 21) if ("C%02d" % i) not in REGISTRY}
