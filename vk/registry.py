"""Property -> harness modules.  Jobs are the functions in those modules that carry
vk_meta (decorators vk.prelude.h / vk.smt.q) and whose name starts with '<id>_'."""

HOOK_COMMITS = []

_BOUNDED = ("Bounded: the verdict covers every input inside the per-harness bounds recorded in the evidence file and nothing "
            "outside them.  Trusted: CPython, CrossHair 0.0.110, z3 5.1; C substrates (struct, pickle, zlib, array, OS files) "
            "run concretely or are stubbed as listed per harness.")

REGISTRY = {
    "C01": dict(
        modules=["harness.c01_algebra", "harness.c01_arrays", "harness.c01_compile"],
        technique="CrossHair symbolic execution of the real matcher classes (symbolic posting lists) vs list algebra; z3 decides every path",
        text="Symbolic execution (CrossHair+z3) of the shipped matcher classes over symbolic ascending posting lists, depth 1 and "
             "every depth-2 nesting of the binary classes, compared with list algebra; plus symbolic query-shape codes driving the real "
             "query->matcher compilation and every search access path on five physical layouts against a reference evaluator over the "
             "corpus model; 'Confirmed over all paths' required.",
        note=_BOUNDED),
    "C13": dict(
        modules=["harness.c13_numeric", "harness.c13_fields"], e2=True, engine="E2-pybmc",
        technique="bounded model checking of the real split_ranges/to_sortable source (AST -> z3 bit-vectors, unwinding + no-overflow obligations); QF_FP for the float encoding; pybmc (Int theory) for the datetime <-> microseconds encoding; CrossHair symbolic bound/flag codes over real NUMERIC/DATETIME fields end to end",
        text="pybmc interprets the current source of whoosh.util.numeric over z3 bit-vectors; for every bit width and shift step the "
             "negated exact-cover property is unsat over the whole domain; unwinding and no-overflow obligations discharged; datetime_to_long/long_to_datetime "
             "are a strictly monotone bijection for every microsecond between datetime.min and datetime.max.  End to end: "
             "12 field configurations (widths, signedness, steps incl. those dividing bits-1, float, Decimal, DATETIME) with edge values; "
             "ranges with symbolic bounds and exclusivity flags match exactly the documents in the interval; sorting and column read-back.",
        note=_BOUNDED),
}

REGISTRY["C20"] = dict(
    modules=["harness.c20_kernels", "harness.c20_sets"], e2=True, engine="E2-pybmc",
    technique="pybmc (AST -> z3 bit-vectors, path forking) on the real varint/zig-zag/delta/GInts/Simple16/GrowableArray code; CrossHair on tables and id sets",
    text="The number codecs are interpreted from source over z3 bit-vectors: encode-then-decode equals identity on every feasible "
         "path for the stated ranges/lengths (negated round trip unsat per path, no-overflow and unwinding obligations discharged).",
    note=_BOUNDED)

REGISTRY["C02"] = dict(
    modules=["harness.c02_crash", "harness.c02_names"],
    technique="CrossHair symbolic execution of real commit/cancel with a symbolic crash point over instrumented storage; z3 enumerates the feasible crash points; z3 strings+regex decide the TOC/segment/temporary file-name grammar read from the live classes",
    text="The crash point (index of the storage operation replaced by process death) and the surviving prefix of open files are symbolic; "
         "CrossHair executes the real writer/TOC/codec/storage code once per feasible point and must confirm over all paths that the "
         "re-opened index is exactly old or new, is writable, and that the next commit leaves no orphaned segment files.",
    note=_BOUNDED + "  OS model: rename atomic, process death closes descriptors, no write re-ordering.")

REGISTRY["C03"] = dict(
    modules=["harness.c03_snapshot"],
    technique="CrossHair symbolic injection points: reader open/probe/refresh steps injected at symbolic storage-operation boundaries of a real 5-commit writer script",
    text="The tick numbers at which a reader opens, probes (all read API families, up_to_date) and refreshes are symbolic; the real writer, "
         "reader, TOC and clean-up code runs once per feasible (k1,k2[,k3]); every path must show the generation's recorded state.",
    note=_BOUNDED + "  A reader step is atomic at a writer's storage-operation boundary (<=3 context switches); one process.")

REGISTRY["C04"] = dict(
    modules=["harness.c04_locking"],
    technique="CrossHair: competing writer attempt injected at a symbolic storage-operation boundary of the real writer; try_for against a symbolic clock",
    text="The instant of a competing writer attempt is symbolic over the lock holder's real transaction script; LockError must occur exactly while "
         "the lock is held, a successful competitor's commit must survive, generations advance by one per commit.  try_for is executed "
         "symbolically with a symbolic clock and symbolic acquire outcomes.",
    note=_BOUNDED + "  One process; flock semantics between processes are trusted.")

REGISTRY["C15"] = dict(
    modules=["harness.c15_rewrite"],
    technique="CrossHair symbolic query-tree codes over the real normalize/simplify/operator/copy code; equivalence decided on an index with one document per observable document type",
    text="Query trees are built from symbolic shape/leaf codes; each rewrite of the real query classes must match exactly the same of 128 "
         "document types (all combinations of the features the leaf vocabulary can observe; queries are document-local), normalize must be "
         "idempotent and never raise, estimate_size must not be below the match count.",
    note=_BOUNDED + "  Known findings KF-C15-1..3 are excluded by predicate and witnessed separately.")
REGISTRY["C05"] = dict(
    modules=["harness.c05_topn"],
    technique="CrossHair symbolic query codes driving the real collectors/matchers with block-quality pruning on multi-block posting lists; limit=k vs exhaustive prefix",
    text="For every generated query, weighting model, layout and k the real limited search (replace/skip_to_quality engaged: measured per "
         "path) must return exactly the k-prefix of the exhaustive ranking with identical scores, and the exact total; also under ReverseWeighting, "
         "FunctionWeighting and a weighting with a final() hook (no usable bounds: the result alone is asserted).",
    note=_BOUNDED)

REGISTRY["C07"] = dict(
    modules=["harness.c07_model"],
    technique="CrossHair symbolic operation-code programs executed on the real writer/reader stack against a dictionary model",
    text="Every program of L operation codes (symbolic) over add/update/delete-by-term/-query/-docnum/commit/optimize/cancel is run on a "
         "real index; after every commit or cancel all read APIs (doc_count, stored fields, Every, Term, Not, postings, sorted search, "
         "facets, delete return values) must equal the dictionary model.",
    note=_BOUNDED)

REGISTRY["C08"] = dict(
    modules=["harness.c08_values"],
    technique="CrossHair symbolic column/mask/value/size codes over the real column writers and readers and the real add_document -> stored_fields/column_reader path",
    text="A symbolic (column type, 6-bit document mask, value codes, document count, offsets cut-off) drives every shipped column writer "
         "then reader at a non-zero base position: reader[d] and iteration give the supplied value or the default; RefBytes across its "
         "256-value switch; 3 documents with symbolic field subsets through 6 storage/compound/merge/copy_to_ram configurations read "
         "back by stored_fields, Hit[...] and column readers.",
    note=_BOUNDED)

REGISTRY["C09"] = dict(
    modules=["harness.c09_scores"], e2=True,
    technique="CrossHair symbolic query codes over the real scoring/matcher stack (score of op(a,b) vs composition of clause scores, layout and collector independence, ten weighting models incl. Multi/Reverse/Function weighting and a final() hook) + z3 reals through the real bm25()",
    text="For every generated query the score of each hit must equal the documented combination of the clause scores on the same "
         "searcher and be identical on one- and two-segment layouts; the real bm25() function object is evaluated on z3 Reals and "
         "shown equal to the textbook formula, monotone and positive over the whole documented domain (negations unsat).",
    note=_BOUNDED + "  Exact real arithmetic in the SMT part; relative tolerance 1e-9 in the end-to-end part.")
REGISTRY["C11"] = dict(
    modules=["harness.c11_cursor"],
    technique="CrossHair symbolic cursor programs (operation codes, skip targets, query codes) run on real matchers over real segments vs the list obtained by fresh stepping",
    text="Every program of cursor operations over matchers compiled from real queries must leave id/score/activity and the remaining "
         "list equal to the reference list; all_ids equals stepping; ids strictly ascend.",
    note=_BOUNDED + "  Known findings KF-C11-1 (copy()/reset() not implemented by on-disk and array matchers) and KF-C11-2 are skipped steps.")

REGISTRY["C06"] = dict(
    modules=["harness.c06_layout", "harness.c06_kernels"],
    technique="CrossHair symbolic commit-cut masks and merge-pattern codes over the real writer/merge/codec stack; canonical dump vs the fewest-commit optimised build; CrossHair with symbolic segment sizes and document numbers over the real global<->local document number arithmetic",
    text="The same document operations are cut into commits by every (symbolic) cut mask under eight merge patterns and three codec block "
         "limits; stored fields, lexicon, postings with positions/characters/weights, lengths, vectors, columns, sort/range/phrase/nested "
         "results must equal the baseline, also after a final optimize; without deletions also statistics and scores.",
    note=_BOUNDED)
REGISTRY["C16"] = dict(
    modules=["harness.c16_parser"],
    technique="CrossHair symbolic atom codes composing the input string / the expression tree, executed on the real parser, plugins, field types and searcher",
    text="Totality: every string of 3 atoms from a grammar-aware alphabet (thorough: 45 atoms, and 4 atoms over a 14-atom "
         "core) through 10 parser configurations returns a query or raises QueryParserError, and searching it raises at most QueryError.  "
         "Meaning: generated expressions [NOT] o1 c1 [NOT] o2 [c2 [NOT] o3] with optional parentheses over 40 operand kinds select "
         "exactly the documents of the documented reading (NOT > AND > OR > implicit group).",
    note=_BOUNDED)

REGISTRY["C17"] = dict(
    modules=["harness.c17_analysis"],
    technique="CrossHair symbolic text-atom codes composing the document text, executed on the real analyzers, field indexing, parser text processing, searcher and highlighter",
    text="For 24 shipped analyzer configurations and every text of 3 atoms from a 14-atom (thorough 18) alphabet: each index-time token, "
         "the query-time conjunction, the parser's term_query and every phrase of 2-3 consecutive positions find the document; positions "
         "never decrease; offsets lie in the text and re-analyse to the token; highlights (4 fragmenters x 2 formatters) stripped of "
         "markup are substrings of the text and mark only matched terms.",
    note=_BOUNDED)

REGISTRY["C18"] = dict(
    modules=["harness.c18_configs"],
    technique="CrossHair symbolic configuration codes (storage x packing x front-end x cut mask x copy_to_ram) over the real storage and writer front-ends; dump vs baseline",
    text="Every configuration code is executed on the real FileStorage/RamStorage/compound/copy_to_ram and BufferedWriter/AsyncWriter/MpWriter "
         "code; the logical dump must equal the RamStorage plain-writer baseline and BufferedWriter.searcher() must see committed+buffered.",
    note=_BOUNDED + "  MpWriter sub-process timing, the async retry thread timing and the flush timer are outside the claim.")

REGISTRY["C10"] = dict(
    modules=["harness.c10_postings"],
    technique="CrossHair symbolic document/codec/format codes over the real analysis->writer->codec->reader path; postings, term statistics and vectors vs the analyzer's own output transposed",
    text="Each document's token sequence, the posting format and the codec configuration (block limit, compression, inlining, in-memory "
         "codec) are symbolic codes; the real writer/codec/reader stack must read back ids, weights (float32), positions, characters, "
         "boosts, term statistics, vectors and field lengths equal to the transposed analyzer output.",
    note=_BOUNDED)
REGISTRY["C12"] = dict(
    modules=["harness.c12_quality"], e2=True,
    technique="CrossHair symbolic query/threshold codes over real matchers and scorers (bounds at every position, skip_to_quality/replace never lose an entry above the threshold) + z3 reals through the real bm25(), the real scorer objects and the real composite matcher classes + pybmc (Int theory) on length_to_byte",
    text="For matchers compiled from real queries on real multi-block segments with the shipped scorers: block_quality >= current score, "
         "max_quality >= every remaining score, skip_to_quality(q)/replace(q) keep every entry scoring above q for q from a symbolic "
         "threshold code; the real bm25() on z3 Reals is bounded by its value at (max weight, min length) over the documented domain; the scorer objects the "
         "real BM25F/TF_IDF/Frequency classes build, and the real binary/wrapper matcher classes over leaves with z3-real scores and bounds, satisfy "
         "score <= block_quality <= max_quality (negations unsat); length_to_byte/byte_to_length are monotone for every length (pybmc, integers).",
    note=_BOUNDED)

REGISTRY["C14"] = dict(
    modules=["harness.c14_views"],
    technique="CrossHair symbolic view-specification codes (sort keys, facets, collapse, filter/mask kinds, page arithmetic) over the real sorting/collector code vs python sorted()/set algebra on the corpus model",
    text="Every sort specification, facet, collapse setting, filter/mask representation and page (total, page number, page length) chosen by "
         "symbolic codes is run through the real search pipeline on one-segment, multi-segment-with-deletion and column-less-segment layouts "
         "and must equal the oracle computed from the corpus model.",
    note=_BOUNDED + "  Known finding KF-C14-1 (len of collapsed results) is not asserted and witnessed separately.")
REGISTRY["C19"] = dict(
    modules=["harness.c19_fuzzy"],
    technique="CrossHair symbolic word/distance/prefix codes over the real distance functions, Levenshtein automaton, term cursors, FuzzyTerm and correctors vs an independent edit-distance definition",
    text="All word pairs up to the length bound over a 3-letter alphabet are pushed through the real distance functions; every query word, "
         "distance and prefix through terms_within, FuzzyTerm and suggest on one- and three-segment indexes of a confusable lexicon; results "
         "must be exactly the terms within the distance (Levenshtein on single segments / fuzzy queries per KF-C19-3, Damerau otherwise).",
    note=_BOUNDED + "  Known findings KF-C19-1..4 are encoded as the asserted behaviour or skipped, and witnessed separately.")

_PENDING = "check not built yet in this round (work in progress; see DESIGN.md section 4)"
NOT_APPLICABLE = {("C%02d" % i): _PENDING for i in range(1, 21) if ("C%02d" % i) not in REGISTRY}
