"""E2 `pybmc`: a small bounded model checker for integer kernels written in Python.

The function's AST is re-read from the live function object (inspect.getsource on /repo's
current tree) on every run and *interpreted* over z3 terms:

* Python ``int``  -> signed bit-vector of width W.  Python ints do not wrap, so every ``+ - * <<``
  and every int->bit-vector coercion records a *no-overflow obligation* (path guard /\\ overflow);
  the caller discharges them as separate queries (``Engine.obligations``).  A result is only claimed
  when they are all unsat, i.e. the bit-vector run coincides with the unbounded-integer run.
  (W=None uses z3 ``Int`` instead; bit operators are then unsupported.)
* two execution modes for symbolic branches:
    - ``merge``: guarded (if-converted) execution: every statement runs under a path guard,
      assignments become ``ite``, ``yield`` appends ``(guard, value)``, ``break``/``return`` clear the
      loop/function guard, loops are unrolled while the guard is satisfiable, up to ``unwind``; the
      *unwinding assertion* (guard /\\ cond after the last unrolling is unsat) is an obligation.
    - ``fork``: classic per-path execution with a decision trail (DFS); every feasible path is
      executed once, ``paths()`` yields (path-condition, result).
* concrete values stay concrete (loop counters, shifts, table lookups by concrete index).

Supported: int/bool/None/tuple/list values, arithmetic/bit operators, comparisons (chains), BoolOp,
IfExp, if/while/for(range|tuple|list|generator result), break/continue/return/yield, assert, local
lambdas and nested defs, calls of other Python functions with source (inlined), user stubs, len/min/
max/abs/int/bool/range/divmod/tuple/list, subscripts of concrete tables by symbolic index (ite
chain + bounds obligation), bisect_left on a concrete table.  Anything else raises Unsupported, which
makes the calling obligation inconclusive -- never silently skipped.
"""
import ast
import inspect
import textwrap
import time
import types

import z3


class Unsupported(Exception):
    pass


class _Return(Exception):
    pass


class Raised(Exception):
    """fork mode: the interpreted code executed a `raise` on this path."""
    def __init__(self, lineno, exc=None):
        Exception.__init__(self, "raise at line %s: %r" % (lineno, exc))
        self.lineno = lineno
        self.exc = exc


def is_sym(v):
    return isinstance(v, z3.ExprRef)


def any_sym(vs):
    return any(is_sym(v) or (isinstance(v, (tuple, list)) and any_sym(v)) for v in vs)



class Gd(object):
    """A control guard: a conjunction of literals (z3 Bool atoms, by ast id).  lits=None is FALSE,
    the empty set is TRUE.  Keeping the conjunct structure lets the store decide `cur => g`
    syntactically (subset), which keeps loop counters concrete under symbolic break conditions."""
    __slots__ = ("lits",)

    def __init__(self, lits):
        self.lits = lits

    @property
    def is_false(self):
        return self.lits is None

    @property
    def is_true(self):
        return self.lits is not None and not self.lits

    def implies(self, other):
        """syntactic: self => other"""
        if self.lits is None:
            return True
        if other.lits is None:
            return False
        return other.lits <= self.lits


G_TRUE = Gd(frozenset())
G_FALSE = Gd(None)


class Guarded(object):
    """Path-sensitive variable: guarded assignments, latest first, over a base value."""
    __slots__ = ("entries", "base")

    def __init__(self, entries, base):
        self.entries = entries
        self.base = base


_UNDEF = object()


class Gen(object):
    """Result of calling a generator function: guarded yields in program order."""
    def __init__(self, items):
        self.items = items  # list of (guard, value)


class Frame(object):
    def __init__(self, env, glob):
        self.env = env
        self.glob = glob
        self.returned = G_FALSE    # guard: paths that have returned
        self.retval = None
        self.has_ret = False
        self.yields = []
        self.loops = []


class Loop(object):
    def __init__(self):
        self.brk = G_FALSE
        self.cont = G_FALSE


class Engine(object):
    def __init__(self, width=72, mode="merge", unwind=80, stubs=None, inline=None, timeout_ms=120000):
        self.W = width
        self.mode = mode
        self.unwind = unwind
        self.stubs = dict(stubs or {})
        self.inline = inline          # predicate(fn) -> bool; default: any python function with source
        self.obligations = []         # (name, z3 Bool that must be UNSAT together with pre)
        self.pc = []                  # path condition (fork mode) / assumptions
        self.guard = G_TRUE           # current guard (merge mode)
        self.atoms = {}
        self._disj = {}
        self._negconj = {}
        self.solver = z3.Solver()
        self.solver.set("timeout", timeout_ms)
        self.queries = 0
        self.solver_s = 0.0
        self._trail = []
        self._pos = 0
        self._src_cache = {}
        self.functions_read = set()
        self.unknown = False
        self.native_types = ()        # instances whose methods run natively even on symbolic arguments
        self.cut = None               # optional cut-point callback (engine, frame, loop stmt, iteration, guard)

    # ---- solver helpers -------------------------------------------------
    def check(self, *extra):
        t0 = time.time()
        self.solver.push()
        for e in extra:
            if e is False:
                self.solver.pop()
                return z3.unsat
            if e is True:
                continue
            self.solver.add(e)
        r = self.solver.check()
        self.last_model = self.solver.model() if r == z3.sat else None
        self.solver.pop()
        self.queries += 1
        self.solver_s += time.time() - t0
        if r == z3.unknown:
            self.unknown = True
        return r

    def assume(self, cond):
        self.pc.append(cond)
        self.solver.add(cond)

    def sym_int(self, name):
        return z3.BitVec(name, self.W) if self.W else z3.Int(name)

    # ---- value helpers ----------------------------------------------------
    def to_term(self, v):
        """python int/bool or z3 term -> z3 arithmetic term (records coercion obligation)."""
        if is_sym(v):
            if z3.is_bool(v):
                return z3.If(v, self.to_term(1), self.to_term(0))
            return v
        if isinstance(v, bool):
            v = int(v)
        if isinstance(v, int):
            if self.W:
                if not (-(1 << (self.W - 1)) <= v < (1 << (self.W - 1))):
                    raise Unsupported("constant %d does not fit the chosen width %d" % (v, self.W))
                return z3.BitVecVal(v, self.W)
            return z3.IntVal(v)
        raise Unsupported("cannot make a term from %r" % (v,))

    def to_bool(self, v):
        if is_sym(v):
            if z3.is_bool(v):
                return v
            return v != self.to_term(0)
        if isinstance(v, Gen):
            raise Unsupported("truth value of generator")
        return bool(v)

    # ---- value-level booleans (python bool or z3 Bool) ----------------------
    @staticmethod
    def b_and(*gs):
        out = []
        for g in gs:
            if g is True:
                continue
            if g is False:
                return False
            out.append(g)
        if not out:
            return True
        r = z3.simplify(z3.And(*out)) if len(out) > 1 else z3.simplify(out[0])
        if z3.is_true(r):
            return True
        if z3.is_false(r):
            return False
        return r

    @staticmethod
    def b_not(g):
        if g is True:
            return False
        if g is False:
            return True
        return z3.Not(g)

    @staticmethod
    def b_or(a, b):
        if a is True or b is True:
            return True
        if a is False:
            return b
        if b is False:
            return a
        return z3.Or(a, b)

    # ---- guards ------------------------------------------------------------
    def _atom(self, e):
        i = e.get_id()
        self.atoms[i] = e
        return Gd(frozenset([i]))

    def lit(self, cond):
        """python bool / z3 Bool value -> guard"""
        if isinstance(cond, Gd):
            return cond
        if cond is True:
            return G_TRUE
        if cond is False:
            return G_FALSE
        cond = z3.simplify(cond)
        if z3.is_true(cond):
            return G_TRUE
        if z3.is_false(cond):
            return G_FALSE
        if z3.is_and(cond):
            return self.g_and(*[self.lit(c) for c in cond.children()])
        if z3.is_not(cond) and z3.is_or(cond.arg(0)):
            return self.g_and(*[self.lit(z3.Not(c)) for c in cond.arg(0).children()])
        return self._atom(cond)

    def expr(self, g):
        """guard -> z3 Bool"""
        if g.lits is None:
            return z3.BoolVal(False)
        if not g.lits:
            return z3.BoolVal(True)
        es = [self.atoms[i] for i in sorted(g.lits)]
        return es[0] if len(es) == 1 else z3.And(*es)

    def g_and(self, *gs):
        acc = set()
        for g in gs:
            if g.lits is None:
                return G_FALSE
            acc |= g.lits
        # cheap contradiction check: a literal and its syntactic negation
        for i in acc:
            e = self.atoms[i]
            if z3.is_not(e) and e.arg(0).get_id() in acc:
                return G_FALSE
        return Gd(frozenset(acc))

    def g_not(self, g):
        if g.lits is None:
            return G_TRUE
        if not g.lits:
            return G_FALSE
        if len(g.lits) == 1:
            (i,) = g.lits
            if i in self._negconj:
                return self._negconj[i]
            if i in self._disj:
                return self.g_and(*[self.g_not(x) for x in self._disj[i]])
            e = self.atoms[i]
            if z3.is_not(e):
                return self.lit(e.arg(0))
            return self._atom(z3.Not(e))
        e = z3.Not(self.expr(g))
        r = self._atom(e)
        self._negconj[e.get_id()] = g
        return r

    def g_or(self, a, b):
        if a.lits is None:
            return b
        if b.lits is None:
            return a
        if a.implies(b):
            return b
        if b.implies(a):
            return a
        parts = []
        for x in (a, b):
            if len(x.lits) == 1 and next(iter(x.lits)) in self._disj:
                parts.extend(self._disj[next(iter(x.lits))])
            else:
                parts.append(x)
        e = z3.Or(*[self.expr(x) for x in parts])
        r = self._atom(e)
        self._disj[e.get_id()] = parts
        return r

    def oblige(self, name, bad):
        """bad (python bool / z3 Bool) must be unsatisfiable under (pre /\\ current guard)."""
        if bad is False:
            return
        if self.guard.is_false:
            return
        g = self.expr(self.guard)
        full = g if bad is True else z3.And(g, bad)
        full = z3.simplify(full)
        if z3.is_false(full):
            return
        if z3.is_true(full):
            raise Unsupported("obligation %s violated unconditionally" % name)
        self.obligations.append((name, full))

    # ---- path-sensitive store -------------------------------------------------
    def store(self, env, name, val, act):
        if act.is_true or name not in env:
            env[name] = val
            return
        old = env[name]
        if isinstance(old, Guarded):
            entries = [(g, v) for (g, v) in old.entries if not g.implies(act)]
            base = old.base
        else:
            entries, base = [], old
        env[name] = Guarded([(act, val)] + entries, base)

    def load(self, v, cur=None):
        if not isinstance(v, Guarded):
            return v
        cur = self.guard if cur is None else cur
        maybe = []
        res = v.base
        for (g, val) in v.entries:
            if cur.implies(g):
                res = val
                break
            if self.g_and(cur, g).is_false:
                continue
            maybe.append((g, val))
        for (g, val) in reversed(maybe):
            res = self.ite(self.expr(g), val, res)
        return res

    def ite(self, c, a, b):
        if c is True:
            return a
        if c is False:
            return b
        if a is b:
            return a
        if isinstance(a, Closure) and isinstance(b, Closure) and a.node is b.node and a.env is b.env:
            return a   # same code over the same (late-bound) environment
        if isinstance(a, (tuple, list)) and isinstance(b, (tuple, list)) and type(a) is type(b) and len(a) == len(b):
            return type(a)(self.ite(c, x, y) for x, y in zip(a, b))
        if not is_sym(a) and not is_sym(b):
            try:
                if a == b and type(a) is type(b):
                    return a
            except Exception:
                pass
        if (is_sym(a) and z3.is_bool(a)) or (is_sym(b) and z3.is_bool(b)) or (isinstance(a, bool) and isinstance(b, bool)):
            ba, bb = self.to_bool(a), self.to_bool(b)
            ba = z3.BoolVal(ba) if isinstance(ba, bool) else ba
            bb = z3.BoolVal(bb) if isinstance(bb, bool) else bb
            return z3.If(c, ba, bb)
        if isinstance(a, (int, bool)) or is_sym(a):
            if isinstance(b, (int, bool)) or is_sym(b):
                return z3.If(c, self.to_term(a), self.to_term(b))
        raise Unsupported("cannot merge %r and %r" % (a, b))

    # ---- arithmetic -------------------------------------------------------
    def binop(self, op, l, r):
        if not is_sym(l) and not is_sym(r) and not (isinstance(l, (tuple, list)) and any_sym(l)) \
                and not (isinstance(r, (tuple, list)) and any_sym(r)):
            return _PYOPS[type(op)](l, r)
        if isinstance(l, (tuple, list)) or isinstance(r, (tuple, list)):
            if isinstance(op, ast.Add):
                if isinstance(l, str) or isinstance(r, str):
                    raise Unsupported("bytes + str (TypeError on Python 3)")
                if isinstance(l, bytes):
                    l = type(r)(l)
                if isinstance(r, bytes):
                    r = type(l)(r)
                return l + r
            raise Unsupported("sequence op")
        a, b = self.to_term(l), self.to_term(r)
        W = self.W
        t = type(op)
        if t is ast.Add:
            if W:
                self.oblige("add-overflow", z3.Not(z3.And(z3.BVAddNoOverflow(a, b, True), z3.BVAddNoUnderflow(a, b))))
            return a + b
        if t is ast.Sub:
            if W:
                self.oblige("sub-overflow", z3.Not(z3.And(z3.BVSubNoOverflow(a, b), z3.BVSubNoUnderflow(a, b, True))))
            return a - b
        if t is ast.Mult:
            if W:
                self.oblige("mul-overflow", z3.Not(z3.And(z3.BVMulNoOverflow(a, b, True), z3.BVMulNoUnderflow(a, b))))
            return a * b
        if t in (ast.FloorDiv, ast.Mod):
            if W:
                self.oblige("div-by-zero", b == 0)
                self.oblige("div-overflow", z3.And(a == z3.BitVecVal(1 << (W - 1), W), b == -1))
                q = z3.SignExt(0, a) / b          # bvsdiv (truncating)
                rem = z3.SRem(a, b)
                adj = z3.And(rem != 0, (rem < 0) != (b < 0))
                if t is ast.FloorDiv:
                    return z3.If(adj, q - 1, q)
                return z3.If(adj, rem + b, rem)
            self.oblige("div-by-zero", b == 0)
            if not (isinstance(r, int) and r > 0):
                raise Unsupported("Int-theory division by non-constant/negative")
            return a / b if t is ast.FloorDiv else a % b
        if not W:
            raise Unsupported("bit operator in Int theory")
        if t is ast.BitAnd:
            return a & b
        if t is ast.BitOr:
            return a | b
        if t is ast.BitXor:
            return a ^ b
        if t is ast.LShift:
            self.oblige("shift-count", z3.Or(b < 0, b >= W))
            res = a << b
            self.oblige("lshift-overflow", (res >> b) != a)
            return res
        if t is ast.RShift:
            self.oblige("shift-count", b < 0)
            # python: arithmetic shift, counts >= W give 0 / -1 which bvashr also gives
            return a >> b
        raise Unsupported("operator %s" % t.__name__)

    def compare(self, op, l, r):
        t = type(op)
        if not is_sym(l) and not is_sym(r):
            if isinstance(l, (tuple, list)) and any_sym(l) or isinstance(r, (tuple, list)) and any_sym(r):
                if t in (ast.Eq, ast.NotEq) and isinstance(l, (tuple, list)) and isinstance(r, (tuple, list)):
                    if len(l) != len(r):
                        return t is ast.NotEq
                    eqs = [self.compare(ast.Eq(), x, y) for x, y in zip(l, r)]
                    e = self.b_and(*eqs)
                    return e if t is ast.Eq else self.b_not(e)
                raise Unsupported("sequence comparison with symbolic members")
            return _PYCMP[t](l, r)
        if t in (ast.Is, ast.IsNot):
            if l is None or r is None:
                return t is ast.IsNot
            raise Unsupported("is on symbolic")
        if l is None or r is None:
            if t is ast.Eq:
                return False
            if t is ast.NotEq:
                return True
            raise Unsupported("ordering None")
        if t in (ast.In, ast.NotIn):
            if isinstance(r, (tuple, list)):
                e = False
                for x in r:
                    e = self.b_or(e, self.compare(ast.Eq(), l, x))
                return e if t is ast.In else self.b_not(e)
            raise Unsupported("in on symbolic container")
        if (is_sym(l) and z3.is_fp(l)) or (is_sym(r) and z3.is_fp(r)):
            # IEEE comparison semantics (what Python's float comparison does): -0.0 == 0.0, NaN unordered
            srt = l.sort() if (is_sym(l) and z3.is_fp(l)) else r.sort()
            a = l if (is_sym(l) and z3.is_fp(l)) else z3.FPVal(float(l), srt)
            b = r if (is_sym(r) and z3.is_fp(r)) else z3.FPVal(float(r), srt)
            return {ast.Eq: z3.fpEQ, ast.NotEq: z3.fpNEQ, ast.Lt: z3.fpLT, ast.LtE: z3.fpLEQ,
                    ast.Gt: z3.fpGT, ast.GtE: z3.fpGEQ}[t](a, b)
        if (is_sym(l) and z3.is_bool(l)) and (isinstance(r, bool) or (is_sym(r) and z3.is_bool(r))):
            a, b = l, (z3.BoolVal(r) if isinstance(r, bool) else r)
        else:
            a, b = self.to_term(l), self.to_term(r)
        if t is ast.Eq:
            return a == b
        if t is ast.NotEq:
            return a != b
        if t is ast.Lt:
            return a < b
        if t is ast.LtE:
            return a <= b
        if t is ast.Gt:
            return a > b
        if t is ast.GtE:
            return a >= b
        raise Unsupported("comparison %s" % t.__name__)

    # ---- branching ----------------------------------------------------------
    def decide(self, cond):
        """fork mode: pick a branch for a symbolic condition, following/extending the trail."""
        cond = z3.simplify(cond)
        if z3.is_true(cond):
            return True
        if z3.is_false(cond):
            return False
        if self._pos < len(self._trail):
            take = self._trail[self._pos][0]
        else:
            can_t = self.check(cond) == z3.sat
            can_f = self.check(z3.Not(cond)) == z3.sat
            if self.unknown:
                raise Unsupported("solver returned unknown while forking")
            if can_t and can_f:
                take = True
                self._trail.append([True, True, None])
            elif can_t or can_f:
                take = can_t
                self._trail.append([take, False, None])
            else:
                raise Unsupported("infeasible path reached")
        self._pos += 1
        self.assume(cond if take else z3.Not(cond))
        return take

    def concretize(self, term):
        """fork mode: case-split a term over its feasible values (one value per path)."""
        while True:
            if self._pos < len(self._trail):
                take, _, val = self._trail[self._pos]
            else:
                if self.check() != z3.sat:
                    raise Unsupported("infeasible path reached (concretize)")
                v = self.last_model.eval(term, model_completion=True)
                val = v.as_signed_long() if z3.is_bv_value(v) else v.as_long()
                take = True
                other = self.check(term != val) == z3.sat
                self._trail.append([True, other, val])
            self._pos += 1
            if take:
                self.assume(term == val)
                return val
            self.assume(term != val)

    def paths(self, fn, args, pre=(), max_paths=100000):
        """fork mode driver: yields (path_condition_list, result) for every feasible path."""
        assert self.mode == "fork"
        self._trail = []
        n = 0
        while True:
            self.solver.push()
            saved_pc = list(self.pc)
            for p in pre:
                self.assume(p)
            self._pos = 0
            try:
                try:
                    res = self.call(fn, list(args), {})
                except Raised as rz:
                    res = rz
                yield list(self.pc), res
            finally:
                self.solver.pop()
                self.pc = saved_pc
            n += 1
            if n >= max_paths:
                raise Unsupported("path budget exhausted")
            while self._trail and not self._trail[-1][1]:
                self._trail.pop()
            if not self._trail:
                return
            self._trail[-1] = [not self._trail[-1][0], False, self._trail[-1][2]]

    # ---- calling ------------------------------------------------------------
    def get_ast(self, fn):
        key = getattr(fn, "__code__", fn)
        if key in self._src_cache:
            return self._src_cache[key]
        src = textwrap.dedent(inspect.getsource(fn))
        tree = ast.parse(src)
        node = tree.body[0]
        if isinstance(node, ast.Expr) and isinstance(node.value, ast.Lambda):
            node = node.value
        if not isinstance(node, (ast.FunctionDef, ast.Lambda)):
            # e.g. "name = lambda ...": find the lambda
            lambdas = [n for n in ast.walk(tree) if isinstance(n, ast.Lambda)]
            if len(lambdas) != 1:
                raise Unsupported("cannot locate source of %r" % (fn,))
            node = lambdas[0]
        self._src_cache[key] = node
        self.functions_read.add("%s.%s" % (getattr(fn, "__module__", "?"), getattr(fn, "__qualname__", "?")))
        return node

    def call(self, fn, args, kwargs):
        if fn in self.stubs:
            return self.stubs[fn](self, *args, **kwargs)
        if isinstance(fn, Closure):
            return self.run_function(fn.node, fn.glob, args, kwargs, closure_env=fn.env, defaults=fn.defaults)
        try:
            handler = _BUILTINS.get(fn)
        except TypeError:
            handler = None
        if handler is not None:
            return handler(self, *args, **kwargs)
        if isinstance(fn, types.MethodType):
            if isinstance(fn.__self__, self.native_types):
                return fn(*args, **kwargs)
            if isinstance(fn.__func__, types.FunctionType):
                return self.call(fn.__func__, [fn.__self__] + list(args), kwargs)
        if isinstance(fn, types.FunctionType) and (self.inline is None or self.inline(fn)):
            try:
                node = self.get_ast(fn)
            except (OSError, TypeError):
                node = None
            if node is not None:
                cenv = {}
                if fn.__closure__:
                    for name, cell in zip(fn.__code__.co_freevars, fn.__closure__):
                        cenv[name] = cell.cell_contents
                defaults = {}
                if fn.__defaults__:
                    names = fn.__code__.co_varnames[:fn.__code__.co_argcount]
                    for n, d in zip(names[-len(fn.__defaults__):], fn.__defaults__):
                        defaults[n] = d
                if fn.__kwdefaults__:
                    defaults.update(fn.__kwdefaults__)
                return self.run_function(node, fn.__globals__, args, kwargs, closure_env=cenv, defaults=defaults)
        if not any_sym(args) and not any_sym(list(kwargs.values())):
            return fn(*args, **kwargs)
        if isinstance(fn, types.BuiltinMethodType) and fn.__name__ in ("append", "extend") and isinstance(fn.__self__, list):
            if not self.guard.is_true:
                raise Unsupported("list mutation under a symbolic guard (use fork mode)")
            return fn(*args)
        raise Unsupported("call of %r with symbolic arguments" % (fn,))

    def run_function(self, node, glob, args, kwargs, closure_env=None, defaults=None):
        env = dict(closure_env or {})
        a = node.args
        names = [x.arg for x in a.args]
        if len(args) > len(names):
            raise Unsupported("too many positional args")
        for n, v in zip(names, args):
            env[n] = v
        for n in names[len(args):]:
            if n in kwargs:
                env[n] = kwargs[n]
            elif defaults and n in defaults:
                env[n] = defaults[n]
            else:
                raise Unsupported("missing argument %s" % n)
        for k in a.kwonlyargs:
            if k.arg in kwargs:
                env[k.arg] = kwargs[k.arg]
            elif defaults and k.arg in defaults:
                env[k.arg] = defaults[k.arg]
        fr = Frame(env, glob)
        if isinstance(node, ast.Lambda):
            return self.eval(node.body, fr)
        is_gen = any(isinstance(n, (ast.Yield, ast.YieldFrom)) for n in _walk_own(node))
        outer_guard = self.guard
        try:
            self.block(node.body, fr, outer_guard)
        finally:
            self.guard = outer_guard
        if is_gen:
            return Gen(fr.yields)
        return fr.retval

    # ---- statements -----------------------------------------------------------
    def active(self, fr, g):
        parts = [g, self.g_not(fr.returned)]
        for lp in fr.loops[-1:]:
            parts.append(self.g_not(lp.brk))
            parts.append(self.g_not(lp.cont))
        return self.g_and(*parts)

    def block(self, stmts, fr, g):
        for st in stmts:
            act = self.active(fr, g)
            if act.is_false:
                return
            self.guard = act
            self.stmt(st, fr, act)

    def assign_name(self, fr, name, val, act):
        self.store(fr.env, name, val, act)

    def assign(self, target, val, fr, act):
        if isinstance(target, ast.Name):
            self.assign_name(fr, target.id, val, act)
        elif isinstance(target, (ast.Tuple, ast.List)):
            if isinstance(val, Gen):
                raise Unsupported("unpacking generator")
            vals = list(val)
            if len(vals) != len(target.elts):
                raise Unsupported("unpack length")
            for t, v in zip(target.elts, vals):
                self.assign(t, v, fr, act)
        elif isinstance(target, ast.Subscript):
            obj = self.eval(target.value, fr)
            idx = self.eval(target.slice, fr)
            if not act.is_true:
                if is_sym(idx):
                    raise Unsupported("guarded store at symbolic index")
                val = self.ite(self.expr(act), val, obj[idx])
            if is_sym(idx):
                if not isinstance(obj, list):
                    raise Unsupported("store at symbolic index")
                self.oblige("index-range", z3.Or(self.to_term(idx) < 0, self.to_term(idx) >= len(obj)))
                for i in range(len(obj)):
                    obj[i] = self.ite(self.to_term(idx) == i, val, obj[i])
            else:
                obj[idx] = val
        elif isinstance(target, ast.Attribute):
            obj = self.eval(target.value, fr)
            if not act.is_true or is_sym(obj):
                raise Unsupported("attribute store under a symbolic guard")
            setattr(obj, target.attr, val)
        else:
            raise Unsupported("assignment target %s" % type(target).__name__)

    def stmt(self, st, fr, act):
        t = type(st)
        if t is ast.Expr:
            if isinstance(st.value, ast.Yield):
                v = self.eval(st.value.value, fr) if st.value.value is not None else None
                fr.yields.append((act, v))
            elif isinstance(st.value, ast.Constant):
                pass
            else:
                self.eval(st.value, fr)
        elif t is ast.Assign:
            v = self.eval(st.value, fr)
            for tg in st.targets:
                self.assign(tg, v, fr, act)
        elif t is ast.AugAssign:
            cur = self.eval(_load(st.target), fr)
            v = self.binop(st.op, cur, self.eval(st.value, fr))
            self.assign(st.target, v, fr, act)
        elif t is ast.Return:
            v = self.eval(st.value, fr) if st.value is not None else None
            if not fr.has_ret:
                fr.retval = v
                fr.has_ret = True
            else:
                fr.retval = self.ite(self.expr(act), v, fr.retval)
            fr.returned = self.g_or(fr.returned, act)
        elif t is ast.If:
            c = self.to_bool(self.eval(st.test, fr))
            if c is True:
                self.block(st.body, fr, act)
            elif c is False:
                self.block(st.orelse, fr, act)
            elif self.mode == "fork":
                if self.decide(c):
                    self.block(st.body, fr, act)
                else:
                    self.block(st.orelse, fr, act)
            else:
                self.block(st.body, fr, self.g_and(act, self.lit(c)))
                self.block(st.orelse, fr, self.g_and(act, self.lit(z3.Not(c))))
        elif t is ast.While:
            self.loop_while(st, fr, act)
        elif t is ast.For:
            self.loop_for(st, fr, act)
        elif t is ast.Break:
            fr.loops[-1].brk = self.g_or(fr.loops[-1].brk, act)
        elif t is ast.Continue:
            fr.loops[-1].cont = self.g_or(fr.loops[-1].cont, act)
        elif t is ast.Pass:
            pass
        elif t is ast.Assert:
            c = self.to_bool(self.eval(st.test, fr))
            if c is not True:
                self.oblige("assert@%d" % st.lineno, self.b_not(c))
        elif t is ast.FunctionDef:
            fr.env[st.name] = Closure(st, fr.env, fr.glob, self._defaults(st.args, fr))
        elif t is ast.Raise:
            if self.mode == "fork" and act.is_true:
                exc = None
                try:
                    exc = self.eval(st.exc, fr) if st.exc is not None else None
                except Exception:  # noqa
                    pass
                raise Raised(st.lineno, exc)
            # merge mode: raising is an outcome the caller must exclude: record as obligation
            self.oblige("raise@%d" % st.lineno, True)
            fr.returned = self.g_or(fr.returned, act)
        elif t is ast.Try:
            if not act.is_true:
                raise Unsupported("try under a symbolic guard")
            try:
                try:
                    self.block(st.body, fr, act)
                except (Unsupported, Raised):
                    raise
                except Exception as ex:  # noqa  (exception raised by natively executed code)
                    for hd in st.handlers:
                        et = self.eval(hd.type, fr) if hd.type is not None else Exception
                        if isinstance(ex, et):
                            if hd.name:
                                fr.env[hd.name] = ex
                            self.block(hd.body, fr, act)
                            break
                    else:
                        raise
                else:
                    self.block(st.orelse, fr, act)
            finally:
                if st.finalbody:
                    self.block(st.finalbody, fr, act)
        else:
            raise Unsupported("statement %s" % t.__name__)

    def _defaults(self, a, fr):
        d = {}
        names = [x.arg for x in a.args]
        for n, dv in zip(names[len(names) - len(a.defaults):], a.defaults):
            d[n] = self.eval(dv, fr)
        for k, dv in zip(a.kwonlyargs, a.kw_defaults):
            if dv is not None:
                d[k.arg] = self.eval(dv, fr)
        return d

    def loop_while(self, st, fr, act):
        lp = Loop()
        fr.loops.append(lp)
        g = act
        n = 0
        try:
            while True:
                g = self.g_and(g, self.g_not(lp.brk), self.g_not(fr.returned))
                if g.is_false:
                    break
                self.guard = g
                c = self.to_bool(self.eval(st.test, fr))
                if c is False:
                    break
                if c is not True:
                    if self.mode == "fork":
                        if not self.decide(c):
                            break
                    else:
                        g2 = self.g_and(g, self.lit(c))
                        if g2.is_false or self.check(self.expr(g2)) == z3.unsat:
                            break
                        g = g2
                if self.cut is not None and self._cut_collapse(fr, g) and self.cut(self, fr, st, n, g):
                    # cut-point: the callback havocked the loop state; restart from a fresh guard
                    g = act
                    lp.brk = G_FALSE
                    self.guard = g
                if n >= self.unwind:
                    # unwinding assertion: no execution needs another iteration
                    self.oblige("unwind@%d" % st.lineno, True)
                    break
                n += 1
                if not g.is_true and n > 1 and self.mode != "fork":
                    # prune: stop unrolling when no execution reaches this iteration
                    if self.check(self.expr(g)) == z3.unsat:
                        break
                lp.cont = G_FALSE
                self.block(st.body, fr, g)
        finally:
            fr.loops.pop()
        if st.orelse:
            raise Unsupported("while-else")

    def _cut_collapse(self, fr, g):
        """At a cut-point the run continues 'as if on a path in g': resolve every variable under g."""
        for k in list(fr.env):
            if isinstance(fr.env[k], Guarded):
                fr.env[k] = self.load(fr.env[k], g)
        return True

    def loop_for(self, st, fr, act):
        it = self.eval(st.iter, fr)
        if isinstance(it, Gen):
            items = it.items
        elif isinstance(it, (range, tuple, list, str, bytes, dict)) or hasattr(it, "__iter__") and not is_sym(it):
            items = [(G_TRUE, v) for v in it]
        else:
            raise Unsupported("for over %r" % (it,))
        lp = Loop()
        fr.loops.append(lp)
        try:
            for (ig, v) in items:
                g = self.g_and(act, ig, self.g_not(lp.brk), self.g_not(fr.returned))
                if g.is_false:
                    continue
                self.guard = g
                self.assign(st.target, v, fr, g)
                lp.cont = G_FALSE
                self.block(st.body, fr, g)
        finally:
            fr.loops.pop()
        if st.orelse:
            raise Unsupported("for-else")

    # ---- expressions ------------------------------------------------------------
    def lookup(self, name, fr):
        if name in fr.env:
            return self.load(fr.env[name])
        if name in fr.glob:
            return fr.glob[name]
        import builtins
        if hasattr(builtins, name):
            return getattr(builtins, name)
        raise Unsupported("unbound name %s" % name)

    def eval(self, e, fr):
        t = type(e)
        if t is ast.Constant:
            return e.value
        if t is ast.Name:
            return self.lookup(e.id, fr)
        if t is ast.BinOp:
            return self.binop(e.op, self.eval(e.left, fr), self.eval(e.right, fr))
        if t is ast.UnaryOp:
            v = self.eval(e.operand, fr)
            if isinstance(e.op, ast.Not):
                return self.b_not(self.to_bool(v))
            if not is_sym(v):
                return {ast.USub: lambda x: -x, ast.UAdd: lambda x: +x, ast.Invert: lambda x: ~x}[type(e.op)](v)
            if isinstance(e.op, ast.USub):
                return self.binop(ast.Sub(), 0, v)
            if isinstance(e.op, ast.Invert):
                if not self.W:
                    return self.binop(ast.Sub(), self.binop(ast.Sub(), 0, v), 1)
                return ~self.to_term(v)
            return v
        if t is ast.BoolOp:
            is_and = isinstance(e.op, ast.And)
            vals = []
            acc = True if is_and else False
            saved = self.guard
            try:
                for sub in e.values:
                    v = self.eval(sub, fr)
                    b = self.to_bool(v)
                    if self.mode == "fork" and not isinstance(b, bool):
                        b = self.decide(b)
                    if isinstance(b, bool) and not any(is_sym(x) for x in vals):
                        # fully concrete so far: python semantics (value result)
                        if b != is_and:
                            return v
                        last = v
                        continue
                    vals.append(b)
                    acc = self.b_and(acc, b) if is_and else self.b_or(acc, b)
                    if acc is (False if is_and else True):
                        return acc
                    # later operands only evaluate when not short-circuited
                    self.guard = self.g_and(saved, self.lit(acc if is_and else self.b_not(acc)))
                if not vals:
                    return last
                return acc
            finally:
                self.guard = saved
        if t is ast.Compare:
            left = self.eval(e.left, fr)
            res = True
            for op, rn in zip(e.ops, e.comparators):
                right = self.eval(rn, fr)
                c = self.compare(op, left, right)
                res = self.b_and(res, c)
                if res is False:
                    return False
                left = right
            return res
        if t is ast.IfExp:
            c = self.to_bool(self.eval(e.test, fr))
            if c is True:
                return self.eval(e.body, fr)
            if c is False:
                return self.eval(e.orelse, fr)
            if self.mode == "fork":
                return self.eval(e.body if self.decide(c) else e.orelse, fr)
            saved = self.guard
            try:
                self.guard = self.g_and(saved, self.lit(c))
                a = self.eval(e.body, fr)
                self.guard = self.g_and(saved, self.lit(z3.Not(c)))
                b = self.eval(e.orelse, fr)
            finally:
                self.guard = saved
            return self.ite(c, a, b)
        if t is ast.Tuple:
            return tuple(self.eval(x, fr) for x in e.elts)
        if t is ast.List:
            return [self.eval(x, fr) for x in e.elts]
        if t is ast.Lambda:
            return Closure(e, fr.env, fr.glob, self._defaults(e.args, fr))
        if t is ast.Call:
            fn = self.eval(e.func, fr)
            args = []
            for a in e.args:
                if isinstance(a, ast.Starred):
                    args.extend(self.eval(a.value, fr))
                else:
                    args.append(self.eval(a, fr))
            kwargs = {k.arg: self.eval(k.value, fr) for k in e.keywords}
            return self.call(fn, args, kwargs)
        if t is ast.Attribute:
            obj = self.eval(e.value, fr)
            if is_sym(obj):
                raise Unsupported("attribute of symbolic value")
            return getattr(obj, e.attr)
        if t is ast.Subscript:
            obj = self.eval(e.value, fr)
            idx = self.eval(e.slice, fr)
            return self.subscript(obj, idx)
        if t is ast.Slice:
            lo = self.eval(e.lower, fr) if e.lower else None
            hi = self.eval(e.upper, fr) if e.upper else None
            stp = self.eval(e.step, fr) if e.step else None
            if any_sym([lo, hi, stp]):
                raise Unsupported("symbolic slice")
            return slice(lo, hi, stp)
        if t is ast.ListComp or t is ast.GeneratorExp:
            if len(e.generators) != 1:
                raise Unsupported("nested comprehension")
            gen = e.generators[0]
            it = self.eval(gen.iter, fr)
            if isinstance(it, Gen):
                raise Unsupported("comprehension over generator result")
            out = []
            sub = Frame(dict(fr.env), fr.glob)
            for v in it:
                self.assign(gen.target, v, sub, True)
                ok = True
                for cnd in gen.ifs:
                    c = self.to_bool(self.eval(cnd, sub))
                    if self.mode == "fork" and not isinstance(c, bool):
                        c = self.decide(c)
                    if not isinstance(c, bool):
                        raise Unsupported("symbolic comprehension filter in merge mode")
                    ok = ok and c
                if ok:
                    out.append(self.eval(e.elt, sub))
            return out
        raise Unsupported("expression %s" % t.__name__)

    def subscript(self, obj, idx):
        if is_sym(obj):
            raise Unsupported("subscript of symbolic value")
        if not is_sym(idx):
            return obj[idx]
        n = len(obj)
        i = self.to_term(idx)
        if self.mode == "fork":
            k = self.concretize(i)
            return obj[k]
        self.oblige("index-range", z3.Or(i < -n, i >= n))
        res = obj[n - 1]
        for k in range(n - 2, -1, -1):
            res = self.ite(z3.Or(i == k, i == k - n), obj[k], res)
        return res


class Closure(object):
    def __init__(self, node, env, glob, defaults):
        self.node, self.env, self.glob, self.defaults = node, env, glob, defaults

    def __hash__(self):
        return id(self)


def _walk_own(fnode):
    """walk a function body without descending into nested function definitions/lambdas."""
    stack = list(fnode.body) if isinstance(fnode.body, list) else [fnode.body]
    while stack:
        n = stack.pop()
        yield n
        for c in ast.iter_child_nodes(n):
            if isinstance(c, (ast.FunctionDef, ast.Lambda)):
                continue
            stack.append(c)


def _load(target):
    import copy
    t = copy.deepcopy(target)
    for n in ast.walk(t):
        if hasattr(n, "ctx"):
            n.ctx = ast.Load()
    return t


import operator as _op
_PYOPS = {ast.Add: _op.add, ast.Sub: _op.sub, ast.Mult: _op.mul, ast.FloorDiv: _op.floordiv, ast.Mod: _op.mod,
          ast.BitAnd: _op.and_, ast.BitOr: _op.or_, ast.BitXor: _op.xor, ast.LShift: _op.lshift, ast.RShift: _op.rshift,
          ast.Div: _op.truediv, ast.Pow: _op.pow}
_PYCMP = {ast.Eq: _op.eq, ast.NotEq: _op.ne, ast.Lt: _op.lt, ast.LtE: _op.le, ast.Gt: _op.gt, ast.GtE: _op.ge,
          ast.Is: _op.is_, ast.IsNot: _op.is_not, ast.In: lambda a, b: a in b, ast.NotIn: lambda a, b: a not in b}


# ---- builtins on symbolic values ------------------------------------------------
def _b_len(eng, x):
    if isinstance(x, Gen):
        raise Unsupported("len of generator")
    return len(x)


def _b_min(eng, *xs, **kw):
    if len(xs) == 1:
        xs = list(xs[0])
    if not any_sym(xs):
        return min(xs)
    r = xs[0]
    for x in xs[1:]:
        r = eng.ite(eng.compare(ast.Lt(), x, r), x, r)
    return r


def _b_max(eng, *xs, **kw):
    if len(xs) == 1:
        xs = list(xs[0])
    if not any_sym(xs):
        return max(xs)
    r = xs[0]
    for x in xs[1:]:
        r = eng.ite(eng.compare(ast.Gt(), x, r), x, r)
    return r


def _b_abs(eng, x):
    if not is_sym(x):
        return abs(x)
    return eng.ite(eng.compare(ast.Lt(), x, 0), eng.binop(ast.Sub(), 0, x), x)


def _b_int(eng, x=0, *a):
    if is_sym(x):
        return eng.to_term(x)
    return int(x, *a)


def _b_bool(eng, x=False):
    return eng.to_bool(x)


def _b_isinstance(eng, x, cls):
    if is_sym(x):
        if z3.is_bool(x):
            return bool in (cls if isinstance(cls, tuple) else (cls,)) or int in (cls if isinstance(cls, tuple) else (cls,))
        return int in (cls if isinstance(cls, tuple) else (cls,))
    return isinstance(x, cls)


def _b_divmod(eng, a, b):
    return (eng.binop(ast.FloorDiv(), a, b), eng.binop(ast.Mod(), a, b))


def _b_bisect_left(eng, table, x, lo=0, hi=None):
    import bisect
    if not is_sym(x):
        return bisect.bisect_left(table, x, lo, hi if hi is not None else len(table))
    xs = list(table)[lo:hi]
    t = eng.to_term(x)
    s = eng.to_term(lo)
    for v in xs:
        s = s + z3.If(eng.to_term(int(v)) < t, eng.to_term(1), eng.to_term(0))
    return s


def _b_tuple(eng, x=()):
    if isinstance(x, Gen):
        raise Unsupported("tuple(generator)")
    return tuple(x)


def _b_list(eng, x=()):
    if isinstance(x, Gen):
        raise Unsupported("list(generator)")
    return list(x)


import bisect as _bisect
_BUILTINS = {len: _b_len, min: _b_min, max: _b_max, abs: _b_abs, int: _b_int, bool: _b_bool,
             isinstance: _b_isinstance, divmod: _b_divmod, _bisect.bisect_left: _b_bisect_left,
             tuple: _b_tuple, list: _b_list}


# ---- discharge helpers ------------------------------------------------------------
def discharge(eng, pre, name_prefix=""):
    """Check every recorded obligation under pre; returns list of (name, 'unsat'|'sat'|'unknown', model)."""
    out = []
    for name, bad in eng.obligations:
        r = eng.check(*(list(pre) + [bad]))
        model = None
        if r == z3.sat:
            eng.solver.push()
            for p in pre:
                eng.solver.add(p)
            eng.solver.add(bad)
            eng.solver.check()
            model = eng.solver.model()
            eng.solver.pop()
        out.append((name_prefix + name, str(r), model))
    return out
