"""Regenerates MANIFEST.json from vk/registry.py (run by hand after editing the registry)."""
import json
import os
import sys

VERIF = os.path.dirname(os.path.dirname(os.path.abspath(__file__)))
sys.path.insert(0, VERIF)
from vk.registry import REGISTRY, NOT_APPLICABLE, HOOK_COMMITS  # noqa

BASE = ("cd /repo && /venv/bin/python -m pytest -ra -q -p no:cacheprovider --timeout=900 "
        "--continue-on-collection-errors")

man = {
    "version": 1,
    "setup_cmd": "vk/ensure_env.sh",
    "hooks": {
        "guard": "WHOOSH_VERIF",
        "enable": "no repository hooks are used: all instrumentation is done from /verif by subclassing "
                  "(storage, struct files) or patching module globals inside the harness process",
        "baseline_off_cmd": BASE,
        "source_commits": HOOK_COMMITS,
        "add_only": True,
    },
    "engines": [
        {"name": "E1-crosshair", "path": "vk/ch.py", "kind_free_text": "CrossHair 0.0.110 per-path symbolic execution of the real "
         "Whoosh functions with z3; verdict 'Confirmed over all paths' only", "serves_properties": sorted(REGISTRY)},
        {"name": "E2-pybmc", "path": "vk/pybmc.py", "kind_free_text": "own bounded model checker: interprets the function's AST "
         "(re-read from /repo each run) over z3 terms with guarded execution, loop unrolling and unwinding assertions",
         "serves_properties": [p for p in sorted(REGISTRY) if REGISTRY[p].get("e2")]},
    ],
    "checks": [],
    "not_applicable": [{"property_id": p, "reason": r} for p, r in sorted(NOT_APPLICABLE.items())],
    "notes": "All checks are bounded solver-based checks of the real code; see DESIGN.md.  Exit 3 = inconclusive.",
}
for pid in sorted(REGISTRY):
    ent = REGISTRY[pid]
    man["checks"].append({
        "property_id": pid,
        "quick_cmd": "./check %s --tier quick" % pid,
        "thorough_cmd": "./check %s --tier thorough" % pid,
        "evidence_file": "evidence/%s.json" % pid,
        "replay_cmd_template": "./check --replay {path}",
        "engine": ent.get("engine", "E1-crosshair"),
        "level_claimed": {"category": "model_checking", "text": ent["text"], "design_ref": ent.get("design_ref", "DESIGN.md section 4, " + pid)},
        "level_note": ent["note"],
        "technique": ent["technique"],
    })
with open(os.path.join(VERIF, "MANIFEST.json"), "w") as f:
    json.dump(man, f, indent=1)
print("wrote MANIFEST.json with", len(man["checks"]), "checks,", len(man["not_applicable"]), "not applicable")
