"""One CrossHair analysis of one harness function, in its own process.

usage: ch_worker.py <module> <function> <per_condition_timeout> <per_path_timeout> <out.json>
"""
import json
import os
import sys
import time

VERIF = os.path.dirname(os.path.dirname(os.path.abspath(__file__)))
sys.path.insert(0, VERIF)
import vk  # noqa: E402,F401  (repository under test first on sys.path)
sys.setrecursionlimit(20000)


def main():
    modname, fname, ctimeout, ptimeout, out = sys.argv[1:6]
    import vk.prelude  # noqa: F401  (clears registered contracts first)
    from crosshair.core_and_libs import analyze_function, run_checkables
    from crosshair.options import AnalysisOptionSet, AnalysisKind
    import importlib
    t0 = time.time()
    res = {"module": modname, "function": fname, "messages": [], "error": None, "repo_src": vk.REPO_SRC}
    try:
        mod = importlib.import_module(modname)
        fn = getattr(mod, fname)
        # translator/harness validation: the registered in-bound examples are pushed through the
        # harness concretely first; a failing example is a concrete counterexample by itself.
        res["examples"] = []
        res["example_failures"] = []
        for ex in fn.vk_meta.get("examples", []):
            call = "%s(**%r)" % (fname, ex)
            try:
                r = fn(**ex)
                obs = None if r is None else "returned %r" % (r,)
            except Exception as e:  # noqa
                obs = "raised %s: %s" % (type(e).__name__, e)
            res["examples"].append(ex)
            if obs is not None:
                res["example_failures"].append({"call": call, "observed": obs})
        opts = AnalysisOptionSet(
            per_condition_timeout=float(ctimeout),
            per_path_timeout=float(ptimeout),
            max_uninteresting_iterations=10 ** 9,
            analysis_kind=[AnalysisKind.PEP316],
            report_all=True,
        )
        checkables = analyze_function(fn, opts)
        if not checkables:
            res["error"] = "no checkable conditions"
        for m in run_checkables(checkables):
            res["messages"].append({"state": m.state.name, "message": m.message,
                                    "line": m.line, "traceback": m.traceback[-3000:] if m.traceback else ""})
    except BaseException as e:  # noqa
        import traceback
        res["error"] = "".join(traceback.format_exception(type(e), e, e.__traceback__))[-4000:]
    res["wall_s"] = time.time() - t0
    res["cpu_s"] = time.process_time()
    with open(out, "w") as f:
        json.dump(res, f)


if __name__ == "__main__":
    main()
